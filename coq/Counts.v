(* Counts.v -- C18: k_simplex(k) adds exactly C(k+1, j+1) simplices of order j and k_void(k)
   C(k+2, j+1) for j <= k (none of order k+1), on every target that meets the vertex-set reading.
   Simplices of order j that a generator adds are in bijection with the (j+1)-element subsequences
   of its new points.  Plain Coq. *)
From Coq Require Import String ZArith Bool Arith List Lia.
From SV Require Import Names NamesFacts ListFacts Rep Fresh Complex Homology Atomic RepInv Reach Shapes Incidence AddEffect
                       Closed ClosedReach AddBasis BasisInv Duality DeleteEffect CopyFaithful VInv AwbSpec Gen VSets GenSets
                       ClosureCount FlagExt MinCycle FlagSound FlagComplete Listing.
Import ListNotations.
Open Scope nat_scope.

Fixpoint binom (n k : nat) : nat :=
  match n, k with
  | _, 0 => 1
  | 0, S _ => 0
  | S n', S k' => binom n' k' + binom n' (S k')
  end.

Lemma combs_count {A} : forall k (l : list A), length (combs k l) = binom (length l) k.
Proof.
  induction k as [|k IHk]; intros l; [destruct l; reflexivity|].
  induction l as [|x t IHl]; [reflexivity|]. cbn [combs length binom]. rewrite app_length, map_length, IHk, IHl. reflexivity.
Qed.

Lemma combs_subseqs {A} : forall k (l c : list A), In c (combs k l) -> In c (subseqs l).
Proof.
  induction k as [|k IHk]; intros l c H.
  - assert (c = []) by (destruct l; simpl in H; destruct H as [H|H]; auto; destruct H). subst c.
    clear H. induction l as [|x t IHl]; [now left|]. simpl. apply in_or_app. now right.
  - induction l as [|x t IHl]; [destruct H|]. simpl in H. apply in_app_or in H. simpl. apply in_or_app. destruct H as [H|H].
    + left. apply in_map_iff in H. destruct H as (c0 & <- & Hc0). apply in_map. eapply IHk; eauto.
    + right. now apply IHl.
Qed.

Lemma subseqs_combs {A} : forall (l c : list A), In c (subseqs l) -> In c (combs (length c) l).
Proof.
  induction l as [|x t IH]; intros c H.
  - destruct H as [<-|[]]. now left.
  - simpl in H. apply in_app_or in H. destruct H as [H|H].
    + apply in_map_iff in H. destruct H as (c0 & <- & Hc0). simpl. apply in_or_app. left. apply in_map. now apply IH.
    + destruct c as [|y c']; [simpl; now left|]. simpl. apply in_or_app. right. exact (IH (y :: c') H).
Qed.

Lemma filter_partition_length {A} (f : A -> bool) l : length l = length (filter f l) + length (filter (fun x => negb (f x)) l).
Proof. induction l as [|a t IH]; simpl; [reflexivity|]. destruct (f a); simpl; lia. Qed.

Section Count.
  Variables r r' : rep.
  Hypothesis Hv : vinv r.
  Hypothesis Hv' : vinv r'.
  Variable new : list name.
  Hypothesis Hnd : NoDup new.
  Hypothesis Hfresh : forall p, In p new -> containsSimplex r p = false.
  Hypothesis Hold : forall t, containsSimplex r t = true -> containsSimplex r' t = true /\ sameset (basisOf r' t) (basisOf r t).
  Variable qb : list name -> bool.
  Hypothesis qb_ext : forall a b, sameset a b -> qb a = qb b.
  Hypothesis Hsets : forall B, NoDup B -> B <> [] ->
    (carried r' B <-> carried r B \/ (incl B new /\ qb B = true)).

  Let P : pinv r := s_p r (c_s r (b_c r (v_b r Hv))).
  Let P' : pinv r' := s_p r' (c_s r' (b_c r' (v_b r' Hv'))).

  Lemma order_of_card r0 t k j : vinv r0 -> assoc t (r_simp r0) = Some (k, j) -> length (basisOf r0 t) = S k.
  Proof. intros V A. exact (v_card r0 V t k j A). Qed.

  (* an old simplex keeps its order *)
  Lemma old_order t k j : assoc t (r_simp r) = Some (k, j) -> exists j', assoc t (r_simp r') = Some (k, j').
  Proof.
    intros A. assert (C : containsSimplex r t = true) by (unfold containsSimplex; now rewrite A).
    destruct (Hold t C) as [C' S']. apply contains_assoc in C'. destruct C' as (k' & j' & A').
    assert (k' = k); [|subst; eauto].
    pose proof (v_card r Hv t k j A) as L. pose proof (v_card r' Hv' t k' j' A') as L'.
    rewrite (NoDup_same_length (basisOf r' t) (basisOf r t)) in L'; [lia| apply basis_nodup; exact P' | apply basis_nodup; exact P | exact S'].
  Qed.

  (* a simplex of r' that was not in r sits on new points only *)
  Lemma fresh_on_new t : containsSimplex r' t = true -> containsSimplex r t = false ->
    incl (basisOf r' t) new /\ qb (basisOf r' t) = true.
  Proof.
    intros C' C.
    assert (Hne : basisOf r' t <> []).
    { pose proof C' as X. apply contains_assoc in X. destruct X as (k & j & A). pose proof (v_card r' Hv' t k j A) as L.
      destruct (basisOf r' t); [discriminate | congruence]. }
    destruct (proj1 (Hsets (basisOf r' t) (basis_nodup r' t P') Hne)) as [(t0 & C0 & S0)|H]; [exists t; split; [exact C'|intros x; tauto] | | exact H].
    exfalso. destruct (Hold t0 C0) as [C0' S0'].
    assert (t0 = t); [|subst; congruence].
    apply (v_uniq r' Hv'); auto. intros x. rewrite (S0' x), (S0 x). tauto.
  Qed.

  Theorem count_added j :
    length (simplicesOfOrder r' j) = length (simplicesOfOrder r j) + length (filter qb (combs (S j) new)).
  Proof.
    set (L' := simplicesOfOrder r' j). set (L := simplicesOfOrder r j).
    rewrite (filter_partition_length (containsSimplex r) L'). f_equal.
    - (* the old ones *)
      apply NoDup_same_length; [apply NoDup_filter; apply sOO_nodup; exact P' | apply sOO_nodup; exact P|].
      intros t. rewrite filter_In. split.
      + intros [Ht Ct]. destruct (listed_assoc r' Hv' t j Ht) as (j' & A').
        apply contains_assoc in Ct. destruct Ct as (k & i & A). destruct (old_order t k i A) as (i' & A2).
        rewrite A' in A2. injection A2 as <- _. eapply order_listed; eauto.
      + intros Ht. destruct (listed_assoc r Hv t j Ht) as (i & A). destruct (old_order t j i A) as (i' & A').
        split; [eapply order_listed; eauto | unfold containsSimplex; now rewrite A].
    - (* the new ones, against the subsequences *)
      set (F := filter (fun x => negb (containsSimplex r x)) L'). set (Cb := filter qb (combs (S j) new)).
      assert (NF : NoDup F) by (apply NoDup_filter; apply sOO_nodup; exact P').
      assert (InF : forall t, In t F <-> In t L' /\ containsSimplex r t = false).
      { intros t. unfold F. rewrite filter_In, negb_true_iff. tauto. }
      assert (NC : NoDup Cb).
      { apply NoDup_filter. assert (G : forall k (l : list name), NoDup l -> NoDup (combs k l)).
        { induction k as [|k IHk]; intros l Hl; [destruct l; repeat constructor; intros []|].
          induction l as [|x t IHl]; [constructor|]. inversion Hl as [|? ? Hx Ht]; subst. simpl.
          apply NoDup_app'.
          - apply NoDup_map_inj_in; [now apply IHk|]. intros a b _ _ E. now injection E.
          - now apply IHl.
          - intros c H1 H2. apply in_map_iff in H1. destruct H1 as (c0 & <- & _).
            apply combs_subseqs in H2. apply subseqs_incl in H2. apply Hx. apply H2. now left. }
        now apply G. }
      apply Nat.le_antisymm.
      + apply (pigeon (fun t c => sameset (basisOf r' t) c)); [exact NF| |].
        * intros t Ht. apply InF in Ht. destruct Ht as [Ht Cn].
          destruct (listed_assoc r' Hv' t j Ht) as (i & A).
          assert (C' : containsSimplex r' t = true) by (unfold containsSimplex; now rewrite A).
          destruct (fresh_on_new t C' Cn) as [Hi Hq].
          set (c := filter (fun p => memn p (basisOf r' t)) new).
          assert (Sc : sameset (basisOf r' t) c).
          { intros x. unfold c. rewrite filter_In, memn_In. split; [intros Hx; split; [now apply Hi | exact Hx] | tauto]. }
          exists c. split; [|exact Sc]. unfold Cb. apply filter_In. split.
          -- assert (Lc : length c = S j).
             { rewrite <- (v_card r' Hv' t j i A). symmetry. apply NoDup_same_length; [apply basis_nodup; exact P' | now apply NoDup_filter | exact Sc]. }
             rewrite <- Lc. apply subseqs_combs. apply filter_is_subseq.
          -- rewrite <- (qb_ext _ _ Sc). exact Hq.
        * intros t t' c Ht Ht' S1 S2. apply InF in Ht, Ht'. destruct Ht as [Ht _], Ht' as [Ht' _].
          destruct (listed_assoc r' Hv' t j Ht) as (i & A). destruct (listed_assoc r' Hv' t' j Ht') as (i' & A').
          apply (v_uniq r' Hv'); try (unfold containsSimplex; now rewrite ?A, ?A').
          intros x. rewrite (S1 x), (S2 x). tauto.
      + apply (pigeon (fun c t => sameset (basisOf r' t) c)); [exact NC| |].
        * intros c Hc. unfold Cb in Hc. apply filter_In in Hc. destruct Hc as [Hc Hq].
          pose proof (combs_length _ _ _ Hc) as Lc. pose proof (combs_subseqs _ _ _ Hc) as Hs.
          assert (Ndc : NoDup c) by (exact (subseqs_nodup new c Hnd Hs)).
          assert (Hic : incl c new) by (now apply subseqs_incl).
          destruct (proj2 (Hsets c Ndc ltac:(destruct c; [discriminate|congruence]))) as (t & Ct & St); [right; auto|].
          exists t. split; [|exact St]. apply InF. pose proof Ct as X. apply contains_assoc in X. destruct X as (k & i & A).
          assert (k = j).
          { pose proof (v_card r' Hv' t k i A) as L0. rewrite (NoDup_same_length (basisOf r' t) c) in L0; [lia|apply basis_nodup; exact P'|exact Ndc|exact St]. }
          subst k. split; [eapply order_listed; eauto|].
          destruct (containsSimplex r t) eqn:Cr; [|reflexivity]. exfalso.
          destruct (Hold t Cr) as [_ So]. destruct c as [|p c']; [discriminate|].
          assert (Hp : In p (basisOf r t)) by (apply So; apply St; now left).
          apply contains_assoc in Cr. destruct Cr as (k0 & i0 & A0).
          destruct (a_basis_point r Hv t k0 i0 p A0 Hp) as (ip & Ap).
          pose proof (Hfresh p (Hic p (or_introl eq_refl))) as Fp. unfold containsSimplex in Fp. now rewrite Ap in Fp.
        * intros c c' t Hc Hc' S1 S2. unfold Cb in Hc, Hc'. apply filter_In in Hc, Hc'. destruct Hc as [Hc _], Hc' as [Hc' _].
          apply combs_subseqs in Hc, Hc'.
          rewrite <- (filter_subseq new c Hnd Hc), <- (filter_subseq new c' Hnd Hc').
          apply filter_ext_in. intros p _. destruct (memn p c) eqn:E1, (memn p c') eqn:E2; auto.
          -- apply memn_In in E1. apply S1 in E1. apply S2 in E1. apply memn_In in E1. congruence.
          -- apply memn_In in E2. apply S2 in E2. apply S1 in E2. apply memn_In in E2. congruence.
  Qed.
End Count.

Lemma filter_true {A} (l : list A) : filter (fun _ => true) l = l.
Proof. induction l as [|a t IH]; simpl; congruence. Qed.

(* C18: k_simplex(k), k >= 1, adds exactly C(k+1, j+1) simplices of order j, whatever the target held *)
Theorem k_simplex_counts k id attr r r' : vinv r -> 1 <= k -> k_simplex k id attr r = (r', Ok tt) ->
  forall j, length (simplicesOfOrder r' j) = length (simplicesOfOrder r j) + binom (S k) (S j).
Proof.
  intros Hv Hk H j.
  destruct (k_simplex_vertex_sets k id attr r r' Hv Hk H) as (new & Hl & Hnd & Hfresh & Hv' & Hold & Hsets).
  rewrite (count_added r r' Hv Hv' new Hnd Hfresh) with (qb := fun _ => true).
  - rewrite filter_true, combs_count, Hl. reflexivity.
  - intros t Ct. destruct (Hold t Ct) as (C' & _ & _ & B). split; [exact C'|]. rewrite B. intros x. tauto.
  - reflexivity.
  - intros B NB Hne. unfold carried. rewrite (Hsets B NB Hne). tauto.
Qed.

(* C18: k_void(k) adds C(k+2, j+1) simplices of order j <= k and none of order k+1 or above *)
Theorem k_void_counts k r r' : vinv r -> k_void k r = (r', Ok tt) ->
  forall j, length (simplicesOfOrder r' j) = length (simplicesOfOrder r j) + (if j <=? k then binom (S (S k)) (S j) else 0).
Proof.
  intros Hv H j.
  destruct (k_void_vertex_sets k r r' Hv H) as (new & Hl & Hnd & Hfresh & Hv' & Hold & Hsets).
  rewrite (count_added r r' Hv Hv' new Hnd Hfresh Hold (fun B => negb (subsetn new B))).
  - f_equal. destruct (j <=? k) eqn:E.
    + apply Nat.leb_le in E. rewrite filter_all; [now rewrite combs_count, Hl|].
      intros c Hc. apply negb_true_iff. destruct (subsetn new c) eqn:Es; [|reflexivity]. exfalso.
      apply subsetn_incl in Es. pose proof (NoDup_incl_length Hnd Es) as L. rewrite (combs_length _ _ _ Hc) in L. lia.
    + apply Nat.leb_gt in E. rewrite filter_none; [reflexivity|].
      intros c Hc. apply negb_false_iff. apply subsetn_incl.
      pose proof (combs_subseqs _ _ _ Hc) as Hs. pose proof (combs_length _ _ _ Hc) as Lc.
      apply NoDup_length_incl; [exact (subseqs_nodup new c Hnd Hs) | lia | now apply subseqs_incl].
  - intros a b Sab. f_equal. destruct (subsetn new a) eqn:Ea, (subsetn new b) eqn:Eb; auto.
    + apply subsetn_incl in Ea. assert (subsetn new b = true) by (apply subsetn_incl; intros x Hx; apply Sab; now apply Ea). congruence.
    + apply subsetn_incl in Eb. assert (subsetn new a = true) by (apply subsetn_incl; intros x Hx; apply Sab; now apply Eb). congruence.
  - intros B NB Hne. unfold carried. rewrite (Hsets B NB Hne). split; (intros [Hc|[Hi Hq]]; [now left | right; split; [exact Hi|]]).
    + apply negb_true_iff. destruct (subsetn new B) eqn:E; auto. apply subsetn_incl in E. contradiction.
    + apply negb_true_iff in Hq. intros Hin. apply subsetn_incl in Hin. congruence.
Qed.
