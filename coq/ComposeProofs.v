(* ComposeProofs.v -- when a.compose(c) succeeds the result is the union (C16): it contains exactly
   the simplices of a and of c; those of a keep the faces they have in a, the others have the faces
   they have in c.  Plain Coq. *)
From Coq Require Import String ZArith Bool Arith List Lia.
From SV Require Import Names NamesFacts ListFacts Rep Fresh Complex Atomic RepInv Reach Shapes ShapesReach Incidence AddEffect CopyFaithful Homology.
Import ListNotations.
Open Scope nat_scope.

Lemma sinv_setAttributes r s h : sinv r -> sinv (setAttributes r s h).
Proof.
  intros [P Lb Ls Sh]. constructor; auto.
  destruct P as [K Pm St L]. constructor; auto.
Qed.

Definition compose_step (a c : rep) (acc : heap * rep * res unit) (s : name) : heap * rep * res unit :=
  match acc with
  | (hp', d', Raise e) => acc
  | (hp', d', Ok _) =>
      let sb := basisOf c s in
      match c_simplexWithBasis a sb false with
      | Raise e => (hp', d', Raise e)
      | Ok q =>
          let hc := match assoc s (r_attr c) with Some h => h | None => (0, 0) end in
          if containsSimplex a s then
            match q with
            | None => (hp', d', Raise ValueError)
            | Some q' =>
                if name_eqb s q' then
                  let ha := match assoc s (r_attr a) with Some h => h | None => (0, 0) end in
                  let '(d1, h') := alloc d' in
                  let merged := fold_left (fun dd kv => dict_set dd (fst kv) (snd kv))
                                          (heap_get hp' hc) (heap_get hp' ha) in
                  (heap_set hp' h' merged, setAttributes d1 s h', Ok tt)
                else (hp', d', Raise ValueError)
            end
          else
            match q with
            | Some _ => (hp', d', Raise ValueError)
            | None =>
                let '(d1, h') := alloc d' in
                let hp1 := heap_set hp' h' (heap_get hp' hc) in
                match addSimplex d1 (faces c s) (Some s) (Some h') with
                | (d2, Raise e) => (hp1, d2, Raise e)
                | (d2, Ok _) => (hp1, d2, Ok tt)
                end
            end
      end
  end.

Lemma compose_loop_fold hp a c d :
  compose_loop hp a c d = fold_left (compose_step a c) (concat (map (simplicesOfOrder c) (seq 0 (r_nord c)))) (hp, d, Ok tt).
Proof. reflexivity. Qed.

Lemma addSimplex_named r fs s h r2 id : addSimplex r fs (Some s) (Some h) = (r2, Ok id) -> id = s.
Proof.
  intros E. unfold addSimplex in E. destruct ((length fs - 1 =? 0) && negb (length fs =? 0)); [discriminate|].
  destruct (containsSimplex r s); [discriminate|]. cbn [alloc] in E.
  destruct (negb (nodupb fs)); [discriminate|]. destruct (check_faces r (length fs - 1) fs); [|discriminate].
  destruct (r_nord r <=? length fs - 1).
  - destruct (r_nord r <? length fs - 1); [discriminate|]. destruct (length fs - 1); cbn [fst snd] in E; inversion E; reflexivity.
  - destruct (0 <? length fs - 1).
    + destruct (simplexWithFaces r fs) as [[?|]|?]; try discriminate. destruct (length fs - 1); inversion E; reflexivity.
    + destruct (length fs - 1); inversion E; reflexivity.
Qed.

Section Compose.
  Variables (a c : rep).

  (* what is true of the complex under construction after the names in `done` have been handled *)
  Record cstate (base : name -> bool) (done : list name) (d : rep) : Prop := {
    cs_inv : sinv d;
    cs_mem : forall s, containsSimplex d s = base s || memn s done;
    cs_a : forall s, base s = true -> forall t, In t (faces d s) <-> In t (faces a s);
    cs_c : forall s, In s done -> base s = false -> forall t, In t (faces d s) <-> In t (faces c s) }.

  Lemma fold_raise L : forall hp d e, fold_left (compose_step a c) L (hp, d, Raise e) = (hp, d, Raise e).
  Proof. induction L as [|x L IH]; intros hp d e; simpl; [reflexivity | apply IH]. Qed.

  Lemma compose_fold base : (forall s, base s = containsSimplex a s) ->
    forall (L : list name) done hp d hp' d', cstate base done d ->
    fold_left (compose_step a c) L (hp, d, Ok tt) = (hp', d', Ok tt) -> cstate base (done ++ L) d'.
  Proof.
    intros Hb. induction L as [|s L IH]; intros done hp d hp' d' Hst H; cbn [fold_left] in H.
    - injection H as _ <-. now rewrite app_nil_r.
    - destruct (compose_step a c (hp, d, Ok tt) s) as [[hp1 d1] [u|e]] eqn:E.
      2: { rewrite fold_raise in H. discriminate. }
      replace (done ++ s :: L) with ((done ++ [s]) ++ L) by (now rewrite <- app_assoc).
      destruct u. apply (IH (done ++ [s]) hp1 d1 hp' d'); [|exact H].
      clear H IH. destruct Hst as [Hinv Hmem Ha Hc].
      unfold compose_step in E. destruct (c_simplexWithBasis a (basisOf c s) false) as [q|e]; [|discriminate].
      destruct (containsSimplex a s) eqn:Cs.
      + destruct q as [q'|]; [|discriminate]. destruct (name_eqb s q') eqn:Eq; [|discriminate].
        destruct (alloc d) as [dd h'] eqn:Ea. injection E as _ <-.
        assert (Hs1 : same_obs d dd) by (pose proof (same_obs_alloc d) as X; now rewrite Ea in X).
        destruct (same_obs_queries d dd Hs1) as (_ & _ & Qf & _ & _ & Qc & _).
        constructor.
        * apply sinv_setAttributes. eapply sinv_same_obs; eauto.
        * intros s0. change (containsSimplex (setAttributes dd s h') s0) with (containsSimplex dd s0).
          rewrite Qc, Hmem. unfold memn. rewrite existsb_app. simpl.
          destruct (name_eqb_spec s0 s) as [->|Hne]; [|now rewrite orb_false_r].
          rewrite Hb, Cs. reflexivity.
        * intros s0 Hs0 t. change (faces (setAttributes dd s h') s0) with (faces dd s0). rewrite Qf. now apply Ha.
        * intros s0 Hin Hs0 t. change (faces (setAttributes dd s h') s0) with (faces dd s0). rewrite Qf.
          apply in_app_or in Hin. destruct Hin as [Hin|[<-|[]]]; [now apply Hc|]. rewrite Hb, Cs in Hs0. discriminate.
      + destruct q as [q'|]; [discriminate|].
        destruct (alloc d) as [dd h'] eqn:Ea.
        assert (Hs1 : same_obs d dd) by (pose proof (same_obs_alloc d) as X; now rewrite Ea in X).
        destruct (same_obs_queries d dd Hs1) as (_ & _ & Qf & _ & _ & Qc & _).
        assert (Hinv1 : sinv dd) by (eapply sinv_same_obs; eauto).
        destruct (addSimplex dd (faces c s) (Some s) (Some h')) as [d2 [id|e]] eqn:EA; [|discriminate].
        injection E as _ <-. pose proof (addSimplex_named _ _ _ _ _ _ EA) as ->.
        destruct (addSimplex_effect dd (faces c s) (Some s) (Some h') d2 s Hinv1 EA) as (Hnew & _ & _ & Hf & Hold & Hall).
        constructor.
        * eapply addSimplex_sinv; eauto.
        * intros s0. rewrite Hall, Qc, Hmem. unfold memn. rewrite existsb_app. simpl. now rewrite orb_false_r, orb_assoc.
        * intros s0 Hs0 t. assert (Hc0 : containsSimplex dd s0 = true) by (rewrite Qc, Hmem, Hs0; reflexivity).
          destruct (Hold s0 Hc0) as (_ & _ & F0 & _). rewrite F0, Qf. now apply Ha.
        * intros s0 Hin Hs0 t. apply in_app_or in Hin. destruct Hin as [Hin|[<-|[]]].
          -- assert (Hc0 : containsSimplex dd s0 = true).
             { rewrite Qc, Hmem. apply orb_true_iff. right. now apply memn_In. }
             destruct (Hold s0 Hc0) as (_ & _ & F0 & _). rewrite F0, Qf. now apply Hc.
          -- apply Hf.
  Qed.
End Compose.

Lemma bool_eq_iff (x y : bool) : (x = true <-> y = true) -> x = y.
Proof. destruct x, y; intuition. Qed.

Lemma memn_listing c s : pinv c ->
  memn s (concat (map (simplicesOfOrder c) (seq 0 (r_nord c)))) = containsSimplex c s.
Proof.
  intros P. apply bool_eq_iff. rewrite memn_In, (contains_iff_listed c s P), in_concat. split.
  - intros (l & Hl & Hs). apply in_map_iff in Hl. destruct Hl as (k & <- & _). eauto.
  - intros (k & Hk). exists (simplicesOfOrder c k). split; [|exact Hk]. apply in_map_iff. exists k. split; [reflexivity|].
    apply in_seq. unfold simplicesOfOrder in Hk. destruct (k <? r_nord c) eqn:E; [|destruct Hk]. apply Nat.ltb_lt in E. lia.
Qed.

(* a.compose(c) without a target: when it succeeds, the result is the union *)
Theorem compose_is_union hp a c uid hp' d : pinv a -> pinv c ->
  compose hp a c None uid = (hp', d, Ok tt) ->
  sinv d /\
  (forall s, containsSimplex d s = containsSimplex a s || containsSimplex c s) /\
  (forall s, containsSimplex a s = true -> forall t, In t (faces d s) <-> In t (faces a s)) /\
  (forall s, containsSimplex c s = true -> containsSimplex a s = false -> forall t, In t (faces d s) <-> In t (faces c s)).
Proof.
  intros Pa Pc H. unfold compose in H.
  destruct (copy_new hp (view_of a) uid) as [[hp1 d0] [[]|e]] eqn:E0; [|discriminate].
  destruct (copy_faithful hp a uid hp1 d0 E0) as (Hinv0 & Hc0 & Hf0).
  assert (Hst0 : cstate a c (containsSimplex a) [] d0).
  { constructor.
    - exact Hinv0.
    - intros s. rewrite Hc0. simpl. rewrite orb_false_r. apply bool_eq_iff. rewrite memn_In. apply In_simplices_iff. exact Pa.
    - intros s Hs t. apply (In_simplices_iff a s Pa) in Hs. destruct (Hf0 s Hs) as [_ Hf]. apply Hf.
    - intros s []. }
  rewrite compose_loop_fold in H.
  pose proof (compose_fold a c (containsSimplex a) (fun s => eq_refl) _ [] hp1 d0 hp' d Hst0 H) as [Hinv Hmem Ha Hc].
  simpl in Hmem, Hc.
  split; [exact Hinv|]. split; [intros s; now rewrite Hmem, memn_listing|]. split; [exact Ha|].
  intros s Hcs Has. apply Hc; [|exact Has]. apply memn_In. now rewrite memn_listing.
Qed.

(* ... and it succeeds only on compatible operands: for every simplex s of c, looking up s's basis
   (as it is in c) in a finds s itself when a has the name s, and nothing when it has not *)
Lemma compose_fold_checks a c : forall (L : list name) hp d hp' d',
  fold_left (compose_step a c) L (hp, d, Ok tt) = (hp', d', Ok tt) ->
  forall s, In s L -> c_simplexWithBasis a (basisOf c s) false = Ok (if containsSimplex a s then Some s else None).
Proof.
  induction L as [|s0 L IH]; intros hp d hp' d' H s Hs; [destruct Hs|]. cbn [fold_left] in H.
  destruct (compose_step a c (hp, d, Ok tt) s0) as [[hp1 d1] [u|e]] eqn:E.
  2: { rewrite fold_raise in H. discriminate. }
  destruct u. destruct Hs as [<-|Hs]; [|eapply IH; eauto].
  clear H IH. unfold compose_step in E.
  destruct (c_simplexWithBasis a (basisOf c s0) false) as [q|e]; [|discriminate].
  destruct (containsSimplex a s0).
  - destruct q as [q'|]; [|discriminate]. destruct (name_eqb_spec s0 q') as [->|]; [reflexivity | discriminate].
  - destruct q as [q'|]; [discriminate | reflexivity].
Qed.

Theorem compose_accepts_only_compatible hp a c uid hp' d : pinv c ->
  compose hp a c None uid = (hp', d, Ok tt) ->
  forall s, containsSimplex c s = true ->
  c_simplexWithBasis a (basisOf c s) false = Ok (if containsSimplex a s then Some s else None).
Proof.
  intros Pc H s Hs. unfold compose in H.
  destruct (copy_new hp (view_of a) uid) as [[hp1 d0] [[]|e]]; [|discriminate].
  rewrite compose_loop_fold in H. apply (compose_fold_checks a c _ hp1 d0 hp' d H).
  apply memn_In. now rewrite memn_listing.
Qed.
