(* Restrict.v -- restrictBasisTo in vertex sets: exactly the simplices whose points all lie in bs stay. *)
From Coq Require Import String ZArith Bool Arith List Lia.
From SV Require Import Names NamesFacts ListFacts Rep Fresh Complex Atomic RepInv Reach Shapes Incidence AddEffect
                       Closed ClosedReach AddBasis BasisInv Duality DeleteEffect CopyFaithful VInv AwbSpec.
From SV Require Import VSets.
Import ListNotations.
Open Scope nat_scope.

Lemma In_unionn x a b : In x (unionn a b) <-> In x a \/ In x b.
Proof.
  unfold unionn. rewrite in_app_iff, filter_In. split.
  - intros [H|[H _]]; auto.
  - intros [H|H]; auto. destruct (memn x a) eqn:M; [left; now apply memn_In|]. right. auto.
Qed.

(* the retention set: contains what it started from, is closed under cofaces, and has nothing else *)
Lemma retain_loop_spec r bs0 : forall f retain source R,
  incl bs0 retain -> incl source retain ->
  (forall x, In x retain -> ~ In x source -> incl (cofaces r x) retain) ->
  (forall x, In x retain -> In x bs0 \/ exists y, In x (cofaces r y)) ->
  retain_loop f r retain source = Ok R ->
  incl bs0 R /\ (forall x, In x R -> incl (cofaces r x) R) /\
  (forall x, In x R -> In x bs0 \/ exists y, In x (cofaces r y)).
Proof.
  induction f as [|f IH]; intros retain source R H0 Hs Hcl Hsound H; simpl in H; [discriminate|].
  set (target := dedupn (flat_map (cofaces r) source)) in H.
  assert (Ht : forall x, In x target <-> exists y, In y source /\ In x (cofaces r y)).
  { intros x. unfold target. rewrite In_dedupn, in_flat_map. reflexivity. }
  destruct (subsetn target retain) eqn:Sub.
  - injection H as <-. apply subsetn_incl in Sub. split; [exact H0|]. split; [|exact Hsound].
    intros x Hx c Hc. destruct (memn x source) eqn:M.
    + apply memn_In in M. apply Sub. apply Ht. eauto.
    + apply memn_false in M. now apply (Hcl x Hx M).
  - apply (IH (unionn retain target) target R); auto.
    + intros x Hx. apply In_unionn. left. auto.
    + intros x Hx. apply In_unionn. now right.
    + intros x Hx Hnt c Hc. apply In_unionn. apply In_unionn in Hx. destruct Hx as [Hx|Hx]; [|contradiction].
      destruct (memn x source) eqn:M.
      * apply memn_In in M. right. apply Ht. eauto.
      * apply memn_false in M. left. now apply (Hcl x Hx M).
    + intros x Hx. apply In_unionn in Hx. destruct Hx as [Hx|Hx]; [auto|]. apply Ht in Hx. destruct Hx as (y & _ & Hy). eauto.
Qed.

(* the loop ends within maxOrder+2 rounds: round i only looks at simplices of order >= i *)
Lemma retain_loop_fuel r : sinv r -> forall f i retain source,
  (forall x, In x source -> exists k j, i <= k /\ assoc x (r_simp r) = Some (k, j)) ->
  1 <= f -> r_nord r + 1 <= f + i -> exists R, retain_loop f r retain source = Ok R.
Proof.
  intros HS. pose proof (s_p r HS) as P.
  induction f as [|f IH]; intros i retain source Hsrc H1 Hf; [lia|].
  simpl. destruct (subsetn _ retain) eqn:Sub; [eauto|].
  assert (Hi : i < r_nord r).
  { destruct (Nat.lt_ge_cases i (r_nord r)) as [Hl|Hl]; [exact Hl|]. exfalso.
    destruct source as [|x t]; [simpl in Sub; discriminate|].
    destruct (Hsrc x (or_introl eq_refl)) as (k & j & Hk & Ax). destruct P as [K Pm St L]. apply Pm in Ax. lia. }
  apply (IH (S i)); [|lia|lia].
  intros x Hx. apply (proj1 (In_dedupn _ _)) in Hx. apply in_flat_map in Hx. destruct Hx as (y & Hy & Hx).
  destruct (Hsrc y Hy) as (k & j & Hk & Ay).
  destruct (coface_is_simplex r HS x y k j Ay Hx) as (jx & Ax). exists (S k), jx. split; [lia|exact Ax].
Qed.
Lemma isBasis_fatal_ok r bs b : c_isBasis r bs true = Ok b -> pts r bs.
Proof.
  unfold c_isBasis. induction bs as [|a t IH]; simpl; intros Eb q Hq; [destruct Hq|].
  unfold containsSimplex, orderOf in Eb. destruct (assoc a (r_simp r)) as [[[|k] i]|] eqn:Ab; try discriminate.
  destruct Hq as [<-|Hq]; [eauto|]. eapply IH; eauto.
Qed.
Lemma isBasis_fatal_pts r bs : pts r bs -> c_isBasis r bs true = Ok true.
Proof.
  unfold c_isBasis. induction bs as [|a t IH]; simpl; intros Hp; [reflexivity|].
  destruct (Hp a (or_introl eq_refl)) as (i & Aa). unfold containsSimplex, orderOf. rewrite Aa.
  apply IH. intros q Hq. apply Hp. now right.
Qed.

Section R.
  Variable r : rep.
  Hypothesis Hv : vinv r.
  Variable bs : list name.
  Variable R : list name.
  Hypothesis R0 : incl bs R.
  Hypothesis Rcl : forall x, In x R -> incl (cofaces r x) R.
  Hypothesis Rsound : forall x, In x R -> In x bs \/ exists y, In x (cofaces r y).
  Let HS : sinv r := c_s r (b_c r (v_b r Hv)).

  Lemma cchain_R : forall n s t, In s R -> cchain r n s t -> In t R.
  Proof.
    induction n as [|n IH]; intros s t Hs H; simpl in H; [now subst|].
    destruct H as (u & Hu & H). apply (IH u t); auto. now apply (Rcl s).
  Qed.

  Lemma basis_point r0 : vinv r0 -> forall t p, containsSimplex r0 t = true -> In p (basisOf r0 t) ->
    containsSimplex r0 p = true /\ basisOf r0 p = [p].
  Proof.
    intros Hv0 t p Ht Hp. apply (contains_assoc r0) in Ht. destruct Ht as (k & j & At).
    destruct (a_basis_point r0 Hv0 t k j p At Hp) as (i & Ap).
    split; [apply (contains_assoc r0); eauto|]. now destruct (b_b r0 (v_b r0 Hv0) p 0 i Ap) as [E _]; auto.
  Qed.

  (* a simplex outside the retention set has no point in bs *)
  Lemma outside_R s : containsSimplex r s = true -> ~ In s R -> forall p, In p (basisOf r s) -> ~ In p bs.
  Proof.
    intros Hs Hn p Hp Hb. apply Hn. destruct (basis_point r Hv s p Hs Hp) as [Cp Bp].
    destruct (proj2 (star_is_supersets r Hv p s Cp)) as (n & Hch).
    - split; auto. rewrite Bp. intros z [<-|[]]. exact Hp.
    - eapply cchain_R; eauto.
  Qed.
  (* a point that is not in bs is outside the retention set *)
  Lemma point_outside p i : assoc p (r_simp r) = Some (0, i) -> ~ In p bs -> ~ In p R.
  Proof.
    intros Ap Hn Hr. destruct (Rsound p Hr) as [H|(y & Hy)]; [contradiction|].
    assert (Cy : exists k j, assoc y (r_simp r) = Some (k, j)).
    { unfold cofaces in Hy. destruct (assoc y (r_simp r)) as [[k j]|]; [eauto|destruct Hy]. }
    destruct Cy as (k & j & Ay). destruct (coface_is_simplex r HS p y k j Ay Hy) as (jp & Ap'). congruence.
  Qed.

  Definition rstep (r1 : rep) (s : name) : rep * res unit :=
    if containsSimplex r1 s && negb (memn s R) then deleteSimplex r1 s else (r1, Ok tt).

  Record J (done : list name) (r1 : rep) : Prop := {
    j_v : vinv r1;
    j_sub : forall t, containsSimplex r1 t = true -> containsSimplex r t = true /\ sameset (basisOf r1 t) (basisOf r t);
    j_keep : forall t, containsSimplex r t = true -> incl (basisOf r t) bs -> containsSimplex r1 t = true;
    j_done : forall s, In s done -> ~ In s R -> containsSimplex r1 s = false }.

  Lemma rstep_J done r1 s r2 x : J done r1 -> rstep r1 s = (r2, x) -> x = Ok tt /\ J (done ++ [s]) r2.
  Proof.
    intros [Jv Jsub Jkeep Jdone] H. unfold rstep in H.
    destruct (containsSimplex r1 s && negb (memn s R)) eqn:C.
    - apply andb_prop in C. destruct C as [C1 C2]. apply negb_true_iff in C2. apply memn_false in C2.
      destruct (deleteSimplex_vertex_sets r1 s r2 x Jv C1 H) as (Hx & Hv2 & Hm & Hb).
      split; [exact Hx|]. constructor; auto.
      + intros t Ht. pose proof (proj1 (Hm t) Ht) as [Ht1 _]. destruct (Jsub t Ht1) as [Ht0 Hs0]. split; auto.
        intros z. rewrite <- (Hs0 z). apply Hb. exact Ht.
      + intros t Ht Hi. apply Hm. split; [now apply Jkeep|].
        intros Hincl. destruct (Jsub s C1) as [Cs Ss]. pose proof (Jkeep t Ht Hi) as Ct1. destruct (Jsub t Ct1) as [_ St].
        pose proof Cs as Cs'. apply (contains_assoc r) in Cs'. destruct Cs' as (k & j & As).
        pose proof (v_card r Hv s k j As) as Lc.
        assert (Ex : exists p, In p (basisOf r s)) by (destruct (basisOf r s) as [|p l]; [discriminate|exists p; now left]).
        destruct Ex as (p & Hp).
        apply (outside_R s Cs C2 p Hp). apply Hi. apply St. apply Hincl. apply Ss. exact Hp.
      + intros s0 Hs0 Hn. apply in_app_or in Hs0. destruct Hs0 as [Hs0|[<-|[]]].
        * destruct (containsSimplex r2 s0) eqn:E; auto. apply Hm in E. destruct E as [E _]. rewrite (Jdone s0 Hs0 Hn) in E. discriminate.
        * destruct (containsSimplex r2 s) eqn:E; auto. apply Hm in E. destruct E as [_ E]. exfalso. apply E. intros z; auto.
    - injection H as <- <-. split; auto. constructor; auto.
      intros s0 Hs0 Hn. apply in_app_or in Hs0. destruct Hs0 as [Hs0|[<-|[]]]; auto.
      destruct (containsSimplex r1 s) eqn:E; auto. simpl in C. apply negb_false_iff in C. apply memn_In in C. contradiction.
  Qed.

  Lemma fold_J : forall L done r1 r' x, J done r1 ->
    fold_left (fun acc s => match acc with (r', Raise e) => (r', Raise e) | (r', Ok _) => rstep r' s end) L (r1, Ok tt) = (r', x) ->
    x = Ok tt /\ J (done ++ L) r'.
  Proof.
    induction L as [|s L IH]; intros done r1 r' x HJ H; simpl in H.
    - injection H as <- <-. rewrite app_nil_r. auto.
    - destruct (rstep r1 s) as [r2 x2] eqn:E. destruct (rstep_J done r1 s r2 x2 HJ E) as [-> HJ2].
      replace (done ++ s :: L) with ((done ++ [s]) ++ L) by (rewrite <- app_assoc; reflexivity).
      apply (IH (done ++ [s]) r2); auto.
  Qed.
End R.

(* restrictBasisTo(bs): never fails on a list of points of the complex; afterwards exactly the simplices
   whose points all lie in bs are there, with the points they had; the reading survives *)
Theorem restrict_vertex_sets r bs r' x : vinv r -> restrictBasisTo r bs = (r', x) ->
  (pts r bs -> x = Ok tt) /\
  (x = Ok tt -> vinv r' /\
    (forall t, containsSimplex r' t = true <-> containsSimplex r t = true /\ incl (basisOf r t) bs) /\
    (forall t, containsSimplex r' t = true -> sameset (basisOf r' t) (basisOf r t))).
Proof.
  intros Hv H. pose proof (c_s r (b_c r (v_b r Hv))) as HS. pose proof (s_p r HS) as P.
  unfold restrictBasisTo in H.
  destruct (c_isBasis r bs true) as [b|e] eqn:Eb.
  2: { injection H as <- <-. split; [|discriminate]. intros Hp. rewrite (isBasis_fatal_pts r bs Hp) in Eb. discriminate. }
  destruct (retain_loop (S (S (r_nord r))) r (dedupn bs) (dedupn bs)) as [R|e] eqn:ER.
  2: { injection H as <- <-. split; [|discriminate]. intros _. exfalso.
       destruct (retain_loop_fuel r HS (S (S (r_nord r))) 0 (dedupn bs) (dedupn bs)) as (R & HR); [|lia|lia|congruence].
       intros p Hp. apply (proj1 (In_dedupn _ _)) in Hp.
       pose proof (isBasis_fatal_ok r bs b Eb) as Pt.
       destruct (Pt p Hp) as (i & Ap). exists 0, i. split; auto. }
  assert (RS : incl (dedupn bs) R /\ (forall x, In x R -> incl (cofaces r x) R) /\
               (forall x, In x R -> In x (dedupn bs) \/ exists y, In x (cofaces r y))).
  { apply (retain_loop_spec r (dedupn bs) (S (S (r_nord r))) (dedupn bs) (dedupn bs) R); auto.
    - intros y Hy; exact Hy.
    - intros y Hy; exact Hy.
    - intros y Hy Hn. contradiction. }
  destruct RS as (R0 & Rcl & Rsound).
  assert (R0' : incl bs R) by (intros z Hz; apply R0; now apply In_dedupn).
  assert (Rs' : forall y, In y R -> In y bs \/ exists z, In y (cofaces r z)).
  { intros y Hy. destruct (Rsound y Hy) as [Hb|Hc]; auto. left. now apply (proj1 (In_dedupn _ _)) in Hb. }
  assert (J0 : J r bs R [] r).
  { constructor; auto.
    - intros t Ht. split; auto. intros z; reflexivity.
    - intros s []. }
  destruct (fold_J r Hv bs R R0' Rcl (simplices r false) [] r r' x J0 H) as [-> [Jv Jsub Jkeep Jdone]].
  split; [reflexivity|]. intros _. split; [exact Jv|]. split.
  - intros t. split.
    + intros Ht. destruct (Jsub t Ht) as [Ct St]. split; auto.
      intros p Hp. destruct (memn p bs) eqn:M; [now apply memn_In|]. apply memn_false in M. exfalso.
      destruct (basis_point r Hv t p Ct Hp) as [Cp _].
      assert (Hp' : In p (basisOf r' t)) by now apply St.
      destruct (basis_point r' Jv t p Ht Hp') as [Cp' _].
      apply (contains_assoc r) in Ct. destruct Ct as (k & j & At).
      destruct (a_basis_point r Hv t k j p At Hp) as (i & Ap).
      rewrite (Jdone p) in Cp'; [discriminate| |].
      * simpl. apply (In_simplices_iff r p P). exact Cp.
      * exact (point_outside r Hv bs R Rs' p i Ap M).
    + intros [Ct Hi]. now apply Jkeep.
  - intros t Ht. now destruct (Jsub t Ht).
Qed.
