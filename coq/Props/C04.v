(* C04 -- closure, star, lookups and disjointness are exact.
   Theorem statements only; proofs (by computation in the kernel) in Sweeps.v.
   BOUNDED: every complex on at most 4 labelled points, every simplex, all four flag combinations;
   disjoint() on all 1-, 2- and 3-tuples of simplices of every complex on at most 3 points. *)
From Coq Require Import String ZArith Bool Arith List.
From SV Require Import Names Rep Complex Homology Filtration Gen World Small Sweeps.

Theorem C04_closure_star_lookup_upto4_partial : forall c, In c complexes4 -> chk_closure_star (build c) = true.
Proof. exact closure_star_upto4. Qed.
Print Assumptions C04_closure_star_lookup_upto4_partial.

Theorem C04_disjoint_upto3_partial : forall c, In c complexes3 -> chk_disjoint (build c) = true.
Proof. exact disjoint_upto3. Qed.
Print Assumptions C04_disjoint_upto3_partial.
