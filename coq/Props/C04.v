(* C04 -- closure, star, lookups and disjointness are exact.
   Theorem statements only; proofs (by computation in the kernel) in Sweeps.v.
   BOUNDED: every complex on at most 4 labelled points, every simplex, all four flag combinations;
   disjoint() on all 1-, 2- and 3-tuples of simplices of every complex on at most 3 points. *)
From Coq Require Import String ZArith Bool Arith List.
From SV Require Import Names Rep Complex Homology Filtration Gen World Small Sweeps NamesFacts RepInv Shapes Incidence StarOrder Duality VInv AwbSpec VSets Lookup ClosureCount.
From SV Require Import ClosureCount StarOrder SortedViews.
Import ListNotations.


Theorem C04_closure_star_lookup_upto4_partial : forall c, In c complexes4 -> chk_closure_star (build c) = true.
Proof. exact closure_star_upto4. Qed.
Print Assumptions C04_closure_star_lookup_upto4_partial.

Theorem C04_disjoint_upto3_partial : forall c, In c complexes3 -> chk_disjoint (build c) = true.
Proof. exact disjoint_upto3. Qed.
Print Assumptions C04_disjoint_upto3_partial.

(* EVERY HISTORY: t is in the closure of s iff s is part of t (whatever the flags for the listing
   direction; both with the simplex itself included) *)
Theorem C04_closure_star_duality :
  forall r, sinv r -> forall s t ks is kt it rs rt Ls Lt,
  assoc s (r_simp r) = Some (ks, is) -> assoc t (r_simp r) = Some (kt, it) ->
  closureOf r s rs false = Ok Ls -> partOf r t rt false = Ok Lt ->
  (In t Ls <-> In s Lt).
Proof. exact closure_star_duality. Qed.
Print Assumptions C04_closure_star_duality.
(* closureOf(s) is what is reached from s by face steps, partOf(s) what is reached by coface steps *)
Theorem C04_closure_is_reachability_by_faces :
  forall r, sinv r -> forall s k is rev L, assoc s (r_simp r) = Some (k, is) -> closureOf r s rev false = Ok L ->
  forall t, In t L <-> exists j, fchain r j s t.
Proof. exact closureOf_spec. Qed.
Print Assumptions C04_closure_is_reachability_by_faces.
Theorem C04_star_is_reachability_by_cofaces :
  forall r, sinv r -> forall s k is rev L, assoc s (r_simp r) = Some (k, is) -> partOf r s rev false = Ok L ->
  forall t, In t L <-> exists j, cchain r j s t.
Proof. exact partOf_spec. Qed.
Print Assumptions C04_star_is_reachability_by_cofaces.
(* partOf(s, reverse=True) lists simplices of the complex, none twice, every coface of an element
   before the element (cofaces first: the order deleteSimplex relies on) *)
Theorem C04_star_listing :
  forall r, sinv r -> forall s k is L, assoc s (r_simp r) = Some (k, is) -> partOf r s true false = Ok L ->
  NoDup L /\ (forall t, In t L -> containsSimplex r t = true) /\
  (forall i t u, nth_error L i = Some t -> In u (cofaces r t) -> exists j, j < i /\ nth_error L j = Some u).
Proof. exact star_positions. Qed.
Print Assumptions C04_star_listing.

(* IN VERTEX SETS, every complex that meets the vertex-set reading (C01_vertex_set_reading_at_every_point):
   closureOf(s) is exactly the simplices whose points are among s's, partOf(s) exactly those whose
   points include s's *)
Theorem C04_closure_is_subsets :
  forall r s rev L, vinv r -> containsSimplex r s = true -> closureOf r s rev false = Ok L ->
  forall t, In t L <-> containsSimplex r t = true /\ incl (basisOf r t) (basisOf r s).
Proof. exact closureOf_is_subsets. Qed.
Print Assumptions C04_closure_is_subsets.
Theorem C04_star_is_supersets :
  forall r s rev L, vinv r -> containsSimplex r s = true -> partOf r s rev false = Ok L ->
  forall t, In t L <-> containsSimplex r t = true /\ incl (basisOf r s) (basisOf r t).
Proof. exact partOf_is_supersets. Qed.
Print Assumptions C04_star_is_supersets.
(* the closure of a simplex of order k lists no simplex twice (any complex of any history) and has
   exactly 2^(k+1) - 1 elements *)
Theorem C04_closure_without_repeats :
  forall r s rev L, sinv r -> closureOf r s rev false = Ok L -> NoDup L.
Proof. exact closureOf_nodup. Qed.
Print Assumptions C04_closure_without_repeats.
Theorem C04_closure_count :
  forall r s k j rev L, vinv r -> assoc s (r_simp r) = Some (k, j) ->
  closureOf r s rev false = Ok L -> S (length L) = 2 ^ (S k).
Proof. exact closureOf_count. Qed.
Print Assumptions C04_closure_count.
(* looking a simplex up by its basis (points of the complex, no repeats, not empty): the one simplex
   on exactly these points, None exactly when there is none, never an exception *)
Theorem C04_lookup_by_basis_exact :
  forall r bs, vinv r -> pts r bs -> NoDup bs -> bs <> nil ->
  match c_simplexWithBasis r bs false with
  | Ok (Some s) => containsSimplex r s = true /\ sameset (basisOf r s) bs /\
                   forall t, containsSimplex r t = true -> sameset (basisOf r t) bs -> t = s
  | Ok None => forall t, containsSimplex r t = true -> ~ sameset (basisOf r t) bs
  | Raise _ => False
  end.
Proof. exact lookup_by_basis_exact. Qed.
Print Assumptions C04_lookup_by_basis_exact.

(* EVERY HISTORY: closureOf is sorted by order -- ascending, descending with reverse=True -- with or without s *)
Theorem C04_closure_sorted_by_order :
  forall r s rev excl L, sinv r -> closureOf r s rev excl = Ok L ->
  if rev then ndesc (map (ord r) L) else nasc (map (ord r) L).
Proof. exact closureOf_sorted. Qed.
Print Assumptions C04_closure_sorted_by_order.
(* exclude_self drops s and nothing else, at the end where it stands *)
Theorem C04_closure_exclude_self :
  forall r s L1 L2, closureOf r s false false = Ok L1 -> closureOf r s true false = Ok L2 ->
  exists M1 M2, closureOf r s false true = Ok M1 /\ closureOf r s true true = Ok M2 /\ L1 = M1 ++ [s] /\ L2 = s :: M2.
Proof. exact closureOf_exclude_self. Qed.
Print Assumptions C04_closure_exclude_self.
(* partOf: the four variants list the same simplices (recorded with their orders) ascending / descending, with s
   in front / at the end or left out; everything but s has an order strictly above s's *)
Theorem C04_star_variants_sorted :
  forall r s k j, sinv r -> assoc s (r_simp r) = Some (k, j) ->
  exists A D : list (nat * name),
    partOf r s false true = Ok (map snd A) /\ partOf r s false false = Ok (s :: map snd A) /\
    partOf r s true true = Ok (map snd D) /\ partOf r s true false = Ok (map snd D ++ [s]) /\
    asc A /\ desc D /\ (forall q, In q A <-> In q D) /\
    (forall o c, In (o, c) A -> k < o /\ exists jc, assoc c (r_simp r) = Some (o, jc)).
Proof. exact partOf_variants. Qed.
Print Assumptions C04_star_variants_sorted.

(* LOOKUP BY FACES, every complex that meets the vertex-set reading: for a duplicate-free list of two or more simplices
   of one order, simplexWithFaces answers the one simplex whose faces are exactly those, None exactly when there is
   none, and never raises *)
From SV Require LookupFaces.
Theorem C04_lookup_by_faces_exact :
  forall r fs, VInv.vinv r -> NoDup fs -> 2 <= length fs ->
  (forall f, In f fs -> exists j, assoc f (r_simp r) = Some (length fs - 1 - 1, j)) ->
  match simplexWithFaces r fs with
  | Ok (Some s) => containsSimplex r s = true /\ VInv.sameset (faces r s) fs /\
                   forall t, containsSimplex r t = true -> VInv.sameset (faces r t) fs -> t = s
  | Ok None => forall t, containsSimplex r t = true -> ~ VInv.sameset (faces r t) fs
  | Raise _ => False
  end.
Proof. exact LookupFaces.lookup_by_faces_exact. Qed.
Print Assumptions C04_lookup_by_faces_exact.

(* DISJOINTNESS, any list of simplices of the complex (of any length, repetitions allowed): disjoint(ss) never raises and
   answers True exactly when no two entries of the list have a member of their closures in common -- which, under the
   vertex-set reading, is: no two entries have a point in common (an entry listed twice meets itself) *)
From SV Require DisjointSpec.
Theorem C04_disjoint_exact :
  forall r ss, (forall s, In s ss -> containsSimplex r s = true) ->
  exists b, disjoint r ss = Ok b /\ (b = true <-> ForallOrdPairs (fun s t => ~ DisjointSpec.meet r s t) ss).
Proof. exact DisjointSpec.disjoint_spec. Qed.
Print Assumptions C04_disjoint_exact.
Theorem C04_meeting_is_sharing_a_point :
  forall r s t, VInv.vinv r -> containsSimplex r s = true -> containsSimplex r t = true ->
  (DisjointSpec.meet r s t <-> exists p, In p (basisOf r s) /\ In p (basisOf r t)).
Proof. exact DisjointSpec.meet_iff_common_point. Qed.
Print Assumptions C04_meeting_is_sharing_a_point.
