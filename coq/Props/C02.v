(* C02 -- each mutator has exactly its set-theoretic effect and a frame.
   Theorem statements only; proofs (by computation in the kernel) in Sweeps.v.
   BOUNDED: proved for every complex on at most 4 labelled points (167 complexes, built by basis
   with library-generated names for the inner simplices) and every applicable request; the
   unbounded statement is tested by the oracle (evidence: tested_only). *)
From Coq Require Import String ZArith Bool Arith List.
From SV Require Import Names NamesFacts Rep Complex Homology Filtration Gen World Small Sweeps RepInv Shapes AddEffect CopyFaithful DelEffect Duality DeleteEffect VInv AwbSpec VReach VSets Restrict Lookup.
From SV Require ClosedReach AttrInv AttrFrame.

(* building by basis gives exactly the non-empty subsets of the given simplices, a well-formed
   complex whose views agree *)
Theorem C02_add_by_basis_builds_upto4_partial : forall c, In c complexes4 ->
  fam_eq (fam (build c)) (closure_of c) && wfb (build c) && viewsb (build c) = true.
Proof. exact built_complexes_upto4. Qed.
Print Assumptions C02_add_by_basis_builds_upto4_partial.

(* deleting s removes exactly the simplices whose vertex set contains that of s; every other
   simplex keeps its name, order, faces and basis; the result is well formed *)
Theorem C02_delete_upto4_partial : forall c, In c complexes4 -> chk_delete (build c) = true.
Proof. exact delete_upto4. Qed.
Print Assumptions C02_delete_upto4_partial.

(* restricting to any set of points keeps exactly the simplices all of whose vertices lie in it *)
Theorem C02_restrict_upto4_partial : forall c, In c complexes4 -> chk_restrict (build c) = true.
Proof. exact restrict_upto4. Qed.
Print Assumptions C02_restrict_upto4_partial.

(* adding by basis any absent vertex set (over the points and one new point) adds exactly its
   missing non-empty subsets, names the top simplex as requested, keeps everything else *)
Theorem C02_add_by_basis_upto4_partial : forall c, In c complexes4 -> chk_addb (build c) = true.
Proof. exact addb_upto4. Qed.
Print Assumptions C02_add_by_basis_upto4_partial.

(* subdividing removes the star and joins one fresh point to every proper face *)
Theorem C02_subdivide_upto4_partial : forall c, In c complexes4 -> chk_subdiv (build c) = true.
Proof. exact subdiv_upto4. Qed.
Print Assumptions C02_subdivide_upto4_partial.

(* EVERY HISTORY: adding by faces adds exactly one simplex -- under a name that was not there, of
   order |fs|-1, with exactly the faces fs -- and every simplex that was there keeps its order, its
   position, its faces and its basis *)
Theorem C02_add_by_faces_exact_effect :
  forall r fs id attr r' n, sinv r -> addSimplex r fs id attr = (r', Ok n) ->
  containsSimplex r n = false /\ NoDup fs /\
  orderOf r' n = Ok (length fs - 1) /\ (forall t, In t (faces r' n) <-> In t fs) /\
  (forall s, containsSimplex r s = true ->
     orderOf r' s = orderOf r s /\ indexOf r' s = indexOf r s /\ faces r' s = faces r s /\ basisOf r' s = basisOf r s) /\
  (forall s, containsSimplex r' s = containsSimplex r s || name_eqb s n).
Proof. exact addSimplex_effect. Qed.
Print Assumptions C02_add_by_faces_exact_effect.

(* bulk add without a renaming: every simplex of the source view arrives under its name with its
   order and faces, the target's own simplices are untouched, membership = old + source *)
Theorem C02_bulk_add_faithful :
  forall (src : srcview) hp r st ns hp' r' st' ns',
  sinv r -> addFrom_loop hp r RNone st src ns = (hp', r', st', Ok ns') ->
  sinv r' /\
  (forall s fs h, In (s, (fs, h)) src ->
     containsSimplex r' s = true /\ orderOf r' s = Ok (length fs - 1) /\ (forall t, In t (faces r' s) <-> In t fs)) /\
  (forall s, containsSimplex r s = true ->
     containsSimplex r' s = true /\ orderOf r' s = orderOf r s /\ indexOf r' s = indexOf r s /\
     faces r' s = faces r s /\ basisOf r' s = basisOf r s) /\
  (forall s, containsSimplex r' s = containsSimplex r s || memn s (map fst src)).
Proof. exact bulk_add_faithful. Qed.
Print Assumptions C02_bulk_add_faithful.

(* removing one simplex (forceDeleteSimplex, the step deleteSimplex is made of): it goes, nothing
   new appears, every other simplex stays with its order, and faces / cofaces of the others lose
   exactly the removed simplex *)
Theorem C02_remove_one_exact_effect :
  forall r s k i, sinv r -> assoc s (r_simp r) = Some (k, i) ->
  let r' := fst (forceDeleteSimplex r s) in
  containsSimplex r' s = false /\
  (forall t, containsSimplex r' t = true -> containsSimplex r t = true /\ t <> s) /\
  (forall t kt it, t <> s -> assoc t (r_simp r) = Some (kt, it) ->
     orderOf r' t = Ok kt /\
     (forall u, In u (faces r' t) <-> In u (faces r t) /\ u <> s) /\
     (forall u, In u (cofaces r' t) <-> In u (cofaces r t) /\ u <> s)).
Proof.
  intros r s k i Hinv As r'. split; [exact (d_gone r s k i Hinv As)|]. split; [exact (d_sub r s k i Hinv As)|].
  intros t kt it Hne At. destruct (d_pos r s k i Hinv As t kt it Hne At) as (_ & At' & _).
  split; [unfold orderOf; fold r' in At'; now rewrite At'|]. split.
  - exact (proj1 (d_faces r s k i Hinv As t kt it Hne At)).
  - apply (d_cofaces r s k i Hinv As t Hne). unfold containsSimplex. now rewrite At.
Qed.
Print Assumptions C02_remove_one_exact_effect.

(* EVERY HISTORY: deleteSimplex(s) of a simplex of the complex never fails, removes exactly the star
   of s -- s and whatever is reached from s by coface steps -- and every surviving simplex keeps
   its order and exactly its faces *)
Theorem C02_delete_exact_effect :
  forall r s r' x, sinv r -> containsSimplex r s = true -> deleteSimplex r s = (r', x) ->
  x = Ok tt /\ sinv r' /\
  (forall t, containsSimplex r' t = true <-> containsSimplex r t = true /\ ~ exists j, cchain r j s t) /\
  (forall t, containsSimplex r' t = true ->
     orderOf r' t = orderOf r t /\ forall u, In u (faces r' t) <-> In u (faces r t)).
Proof. exact deleteSimplex_effect. Qed.
Print Assumptions C02_delete_exact_effect.

(* ADD BY BASIS, EVERY COMPLEX THAT MEETS THE VERTEX-SET READING (C01_vertex_set_reading_at_every_point)
   AND EVERY DUPLICATE-FREE BASIS OF AT LEAST TWO NAMES: when the request is accepted, the simplex on
   exactly bs is in the complex under the returned name; every simplex that was there keeps its order,
   faces and basis; every simplex that is new lies inside bs and has a point set no earlier simplex
   had -- i.e. exactly the missing subsets of bs can have been added; and the reading still holds *)
Theorem C02_add_by_basis_effect :
  forall r bs id attr r' n, vinv r -> NoDup bs -> 2 <= length bs ->
  c_addSimplexWithBasis r bs id attr = (r', Ok n) ->
  vinv r' /\ containsSimplex r' n = true /\ (forall p, In p (basisOf r' n) <-> In p bs) /\
  (forall t, containsSimplex r t = true ->
     containsSimplex r' t = true /\ orderOf r' t = orderOf r t /\ faces r' t = faces r t /\ basisOf r' t = basisOf r t) /\
  (forall t, containsSimplex r' t = true -> containsSimplex r t = false ->
     incl (basisOf r' t) bs /\ forall u, containsSimplex r u = true -> ~ (forall p, In p (basisOf r u) <-> In p (basisOf r' t))).
Proof. exact add_by_basis_effect. Qed.
Print Assumptions C02_add_by_basis_effect.

(* THE SAME IN VERTEX SETS: the sets of points that carry a simplex after an accepted add by basis are
   exactly those that did before and the non-empty subsets of bs *)
Theorem C02_add_by_basis_vertex_sets :
  forall r bs id attr r' n, vinv r -> NoDup bs -> 2 <= length bs ->
  c_addSimplexWithBasis r bs id attr = (r', Ok n) ->
  forall B, NoDup B -> B <> nil ->
  ((exists t, containsSimplex r' t = true /\ sameset (basisOf r' t) B) <->
   (exists t, containsSimplex r t = true /\ sameset (basisOf r t) B) \/ incl B bs).
Proof. exact add_by_basis_vertex_sets. Qed.
Print Assumptions C02_add_by_basis_vertex_sets.

(* deleteSimplex(s): never fails on a simplex of the complex; exactly the simplices whose points
   include all of s's go, the others keep their points; the reading survives *)
Theorem C02_delete_vertex_sets :
  forall r s r' x, vinv r -> containsSimplex r s = true -> deleteSimplex r s = (r', x) ->
  x = Ok tt /\ vinv r' /\
  (forall t, containsSimplex r' t = true <-> containsSimplex r t = true /\ ~ incl (basisOf r s) (basisOf r t)) /\
  (forall t, containsSimplex r' t = true -> sameset (basisOf r' t) (basisOf r t)).
Proof. exact deleteSimplex_vertex_sets. Qed.
Print Assumptions C02_delete_vertex_sets.

(* deleteSimplexWithBasis(bs) for points bs of the complex: succeeds when some simplex is on exactly
   bs, and then removes exactly the simplices whose points include bs *)
Theorem C02_delete_by_basis_vertex_sets :
  forall r bs r' x, vinv r -> pts r bs -> NoDup bs -> bs <> nil ->
  deleteSimplexWithBasis r bs = (r', x) ->
  (x = Ok tt -> vinv r' /\
     (forall t, containsSimplex r' t = true <-> containsSimplex r t = true /\ ~ incl bs (basisOf r t)) /\
     (forall t, containsSimplex r' t = true -> sameset (basisOf r' t) (basisOf r t))) /\
  ((exists s, containsSimplex r s = true /\ sameset (basisOf r s) bs) -> x = Ok tt).
Proof. exact delete_by_basis_vertex_sets. Qed.
Print Assumptions C02_delete_by_basis_vertex_sets.

(* restrictBasisTo(bs): never fails (nor runs out of the model's fuel) when bs are points of the
   complex; afterwards exactly the simplices all of whose points lie in bs are there, with the points
   they had *)
Theorem C02_restrict_vertex_sets :
  forall r bs r' x, vinv r -> restrictBasisTo r bs = (r', x) ->
  (pts r bs -> x = Ok tt) /\
  (x = Ok tt -> vinv r' /\
    (forall t, containsSimplex r' t = true <-> containsSimplex r t = true /\ incl (basisOf r t) bs) /\
    (forall t, containsSimplex r' t = true -> sameset (basisOf r' t) (basisOf r t))).
Proof. exact restrict_vertex_sets. Qed.
Print Assumptions C02_restrict_vertex_sets.

(* THE ATTRIBUTE FRAME.  AttrInv.ainv (every simplex has exactly one attribute dictionary, nothing else has one)
   holds after every history of public operations (C15_attribute_table_invariant).  None of the operations below
   takes the heap of dictionaries, so no content can change; which dictionary -- which object -- belongs to which
   simplex is the table r_attr: *)
(* an accepted addSimplex leaves every simplex that was there with the dictionary it had, and the new simplex has
   the dictionary it was given, or one of the complex's own when none was given *)
Theorem C02_add_attaches_the_given_attributes_and_keeps_the_others :
  forall r fs id attr r' n, AttrInv.ainv r -> addSimplex r fs id attr = (r', Ok n) ->
  (forall t, containsSimplex r t = true -> containsSimplex r' t = true /\ assoc t (r_attr r') = assoc t (r_attr r)) /\
  exists h, assoc n (r_attr r') = Some h /\ (attr = Some h \/ (attr = None /\ fst h = r_uid r)).
Proof. exact AttrFrame.addSimplex_attr. Qed.
Print Assumptions C02_add_attaches_the_given_attributes_and_keeps_the_others.
(* adding by basis, ensuring a basis and adding in bulk -- whatever their outcome -- leave every simplex that was
   there in the complex, with the dictionary it had *)
Theorem C02_additions_keep_the_attributes_of_what_was_there :
  (forall r bs id attr r' x, AttrInv.ainv r -> c_addSimplexWithBasis r bs id attr = (r', x) -> AttrFrame.keeps_old r r') /\
  (forall r bs attr r' x, AttrInv.ainv r -> c_ensureBasis r bs attr = (r', x) -> AttrFrame.keeps_old r r') /\
  (forall r hp src rn hp' r' st x, AttrInv.ainv r -> addSimplicesFrom hp r src rn = (hp', r', st, x) -> AttrFrame.keeps_old r r').
Proof.
  split; [exact AttrFrame.addSimplexWithBasis_keeps_old|].
  split; [exact AttrFrame.ensureBasis_keeps_old|exact AttrFrame.addSimplicesFrom_keeps_old].
Qed.
Print Assumptions C02_additions_keep_the_attributes_of_what_was_there.
(* every deletion -- one simplex with its star, by basis, several, restriction to a basis -- whatever its outcome,
   leaves every survivor a simplex of the original complex with the dictionary it had there *)
Theorem C02_deletions_keep_the_attributes_of_the_survivors :
  (forall r s r' x, AttrInv.ainv r -> deleteSimplex r s = (r', x) -> AttrFrame.survivors_keep r r') /\
  (forall r bs r' x, AttrInv.ainv r -> deleteSimplexWithBasis r bs = (r', x) -> AttrFrame.survivors_keep r r') /\
  (forall r ss r' x, AttrInv.ainv r -> deleteSimplices r ss = (r', x) -> AttrFrame.survivors_keep r r') /\
  (forall r bs r' x, AttrInv.ainv r -> restrictBasisTo r bs = (r', x) -> AttrFrame.survivors_keep r r').
Proof.
  split; [exact AttrFrame.deleteSimplex_attr|]. split; [exact AttrFrame.deleteSimplexWithBasis_attr|].
  split; [exact AttrFrame.deleteSimplices_attr|exact AttrFrame.restrictBasisTo_attr].
Qed.
Print Assumptions C02_deletions_keep_the_attributes_of_the_survivors.
