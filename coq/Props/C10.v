(* placeholder so that the pipeline can be exercised; replaced by the real theorems *)
From SV Require Import Names Rep.
Theorem C10_placeholder : True. Proof. exact I. Qed.
Print Assumptions C10_placeholder.
