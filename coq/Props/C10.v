(* C10 -- comparison operators.  Theorem statements only; proofs in Cmp.v. *)
From Coq Require Import String ZArith Bool Arith List.
From SV Require Import Names NamesFacts ListFacts Rep Fresh Complex Atomic RepInv Cmp Shapes CopyFaithful Closed ClosedReach Smaller EqSets.
Import ListNotations.

(* a <= b exactly when every simplex listed in a occurs in b with the same order and with its
   faces among its faces in b (for well-formed complexes both have k+1 faces, hence the same set) *)
Theorem C10_le_iff : forall a c, c_le a c = true <-> le_spec a c.
Proof. exact le_iff. Qed.
Print Assumptions C10_le_iff.

Theorem C10_operators_defined_from_le :
  forall a c, c_lt a c = c_le a c && (numberOfSimplices a <? numberOfSimplices c) /\
              c_eq a c = c_le a c && (numberOfSimplices a =? numberOfSimplices c) /\
              c_ge a c = c_le c a /\ c_gt a c = c_lt c a /\ c_ne a c = negb (c_eq a c).
Proof. intros; repeat split. Qed.
Print Assumptions C10_operators_defined_from_le.

Theorem C10_attributes_never_matter :
  forall a c x y, c_le (with_attr a x) (with_attr c y) = c_le a c /\ c_eq (with_attr a x) (with_attr c y) = c_eq a c /\
                  c_lt (with_attr a x) (with_attr c y) = c_lt a c.
Proof. exact attr_blind. Qed.
Print Assumptions C10_attributes_never_matter.

(* <= is reflexive, transitive and antisymmetric up to == on every reachable complex *)
Theorem C10_refl : forall a, pinv a -> c_le a a = true /\ c_eq a a = true.
Proof. intros a H. split; [now apply le_refl | now apply eq_refl']. Qed.
Print Assumptions C10_refl.
Theorem C10_trans : forall a b c, pinv b -> c_le a b = true -> c_le b c = true -> c_le a c = true.
Proof. exact le_trans. Qed.
Print Assumptions C10_trans.
Theorem C10_antisym : forall a b, pinv a -> pinv b -> c_le a b = true -> c_le b a = true -> c_eq a b = true.
Proof. exact le_antisym. Qed.
Print Assumptions C10_antisym.

(* non-vacuity / the defect repaired in /repo: two distinct lone points are not equal *)
Example C10_lone_points :
  let a := fst (addSimplex (empty_rep 1) [] (Some (NInt 1)) None) in
  let b := fst (addSimplex (empty_rep 2) [] (Some (NInt 2)) None) in
  c_eq a b = false /\ c_le a b = false /\ c_eq a a = true.
Proof. vm_compute. repeat split. Qed.

(* every copy equals its source (for a source whose simplices of order k list k+1 faces, none for
   points -- C01's well-formedness) *)
Theorem C10_copy_equals_source :
  forall hp a uid hp' c, pinv a -> face_counts a ->
  copy_new hp (view_of a) uid = (hp', c, Ok tt) -> c_eq a c = true.
Proof. exact copy_equals_source. Qed.
Print Assumptions C10_copy_equals_source.

(* ... in particular every copy of a complex built by public operations equals it *)
Theorem C10_copy_equals_source_public :
  forall hp a uid hp' c, cinv a -> copy_new hp (view_of a) uid = (hp', c, Ok tt) -> c_eq a c = true.
Proof. exact copy_equals_source_public. Qed.
Print Assumptions C10_copy_equals_source_public.
(* deleting any simplex of a complex makes it strictly smaller than it was *)
Theorem C10_delete_makes_strictly_smaller :
  forall r s r' x, sinv r -> containsSimplex r s = true -> deleteSimplex r s = (r', x) -> c_lt r' r = true.
Proof. exact deleteSimplex_strictly_smaller. Qed.
Print Assumptions C10_delete_makes_strictly_smaller.

(* a == b forces the same set of simplices; so complexes that differ in any simplex -- a
   highest-order one, a lone point -- are never equal (and != holds) *)
Theorem C10_equal_complexes_have_the_same_simplices :
  forall a b, pinv a -> pinv b -> c_eq a b = true -> forall s, containsSimplex a s = containsSimplex b s.
Proof. exact eq_same_simplices. Qed.
Print Assumptions C10_equal_complexes_have_the_same_simplices.
Theorem C10_differ_in_a_simplex_never_equal :
  forall a b s, pinv a -> pinv b -> containsSimplex a s <> containsSimplex b s -> c_eq a b = false /\ c_ne a b = true.
Proof. exact differ_in_a_simplex_never_equal. Qed.
Print Assumptions C10_differ_in_a_simplex_never_equal.
