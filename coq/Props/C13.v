(* C13 -- a filtration is a monotone sequence of complexes indexed by birth.
   Theorem statements only; proofs in FiltProofs.v.  Not proved (tested by the oracle with its
   shadow log): closedness of each view, deletion of the whole star across indices, the results of
   complexes(). *)
From Coq Require Import String ZArith Bool Arith List.
From SV Require Import Names NamesFacts ListFacts Rep Fresh Complex Atomic RepInv Homology Filtration FiltProofs Shapes SnapProofs FiltClosed.
From SV Require Closed ClosedReach FiltCinv FiltBook FiltCopy.
From Coq Require Sorted.
Import ListNotations.

(* the complex seen at index i consists of exactly the simplices of the filtration whose birth
   index is <= i *)
Theorem C13_view :
  forall f i s, In s (f_simplices (at_index f i) false) <->
  In s (simplices (f_rep f) false) /\ containsSimplex (f_rep f) s = true /\
  exists b, assoc s (f_appears f) = Some b /\ (b <= i)%Z.
Proof. exact view_def. Qed.
Print Assumptions C13_view.

(* setIndex only moves the point of view *)
Theorem C13_setIndex_view : forall f i b, f_simplices (f_setIndex f i) b = f_simplices (at_index f i) b.
Proof. exact simplices_setIndex. Qed.
Print Assumptions C13_setIndex_view.

(* for i <= j the complex at i is a sub-family of the complex at j, for any indices (negative,
   fractional, visited in any order) *)
Theorem C13_monotone :
  forall f i j s, (i <= j)%Z -> In s (f_simplices (at_index f i) false) -> In s (f_simplices (at_index f j) false).
Proof. exact view_monotone. Qed.
Print Assumptions C13_monotone.

(* addedAtIndex: a successful add registers the index current at that moment and leaves every
   other birth index alone *)
Theorem C13_birth :
  forall f fs id attr f' n, pinv (f_rep f) -> finv f -> f_addSimplex f fs id attr = (f', Ok n) ->
  assoc n (f_appears f') = Some (f_index f) /\ f_index f' = f_index f /\
  (forall s, s <> n -> assoc s (f_appears f') = assoc s (f_appears f)) /\ finv f'.
Proof. exact add_registers_birth. Qed.
Print Assumptions C13_birth.

(* every snapshot / every complex yielded by complexes() is a closed complex: shapes and k+1 faces
   per simplex of order k (whatever the outcome of the copy) *)
Theorem C13_snapshot_is_closed :
  forall hp (f : filt) uid hp' c x, copy_new hp (f_view f) uid = (hp', c, x) -> Closed.cinv c.
Proof. intros hp f uid hp' c x. exact (ClosedReach.copy_new_cinv hp (f_view f) uid hp' c x). Qed.
Print Assumptions C13_snapshot_is_closed.

(* EVERY HISTORY of setting the index (to anything, in any order), stepping, adding and deleting:
   the invariant minv = shapes + "exactly the simplices have a birth" + "a face is born no later
   than its cofaces" holds ... *)
Theorem C13_history_invariant : forall uid i0 ops, minv (fold_left fstep ops (new_filt uid i0)).
Proof. exact filtration_history_minv. Qed.
Print Assumptions C13_history_invariant.
(* ... hence the complex seen at any index is closed under faces *)
Theorem C13_view_closed_under_faces :
  forall f i s t, minv f -> f_contains (at_index f i) s = true -> In t (faces (f_rep f) s) ->
  f_contains (at_index f i) t = true.
Proof. exact view_closed_under_faces. Qed.
Print Assumptions C13_view_closed_under_faces.

(* the complex under the filtration is closed (a simplex of order k >= 1 has exactly k+1 faces) at every
   point of every filtration history -- the hypothesis of the C14 snapshot theorems *)
Theorem C13_filtration_histories_are_closed :
  forall uid i0 ops, Closed.cinv (f_rep (fold_left fstep ops (new_filt uid i0))).
Proof. exact FiltCinv.filtration_history_cinv. Qed.
Print Assumptions C13_filtration_histories_are_closed.

(* THE BOOKKEEPING.  After every history of public operations the two tables of the filtration
   (simplex -> birth index, index -> simplices born there) say the same thing (FiltBook.binv) ... *)
Theorem C13_bookkeeping_invariant :
  forall uid i0 ops, FiltBook.binv (fold_left fstep ops (new_filt uid i0)).
Proof. intros uid i0 ops. exact (proj2 (FiltBook.filtration_history_binv uid i0 ops)). Qed.
Print Assumptions C13_bookkeeping_invariant.
(* ... hence indices() is strictly ascending (so duplicate-free), contains the index the filtration
   stands at and every birth index ... *)
Theorem C13_indices_ascending_and_cover_births :
  forall f, FiltBook.binv f ->
  Sorted.StronglySorted Z.lt (f_indices f) /\ In (f_index f) (f_indices f) /\ forall s i, f_addedAtIndex f s = Ok i -> In i (f_indices f).
Proof.
  intros f H. split; [now apply FiltBook.indices_strictly_ascending|].
  split; [now apply FiltBook.current_index_is_an_index|].
  intros s i. now apply FiltBook.every_birth_is_an_index.
Qed.
Print Assumptions C13_indices_ascending_and_cover_births.
(* ... simplicesAddedAtIndex(i) lists exactly the simplices whose addedAtIndex is i ... *)
Theorem C13_simplicesAddedAtIndex_lists_the_births :
  forall f i b l, minv f -> FiltBook.binv f -> f_simplicesAddedAtIndex f i b = Ok l ->
  forall s, In s (map snd l) <-> f_addedAtIndex f s = Ok i.
Proof. exact FiltBook.addedAt_lists_the_births. Qed.
Print Assumptions C13_simplicesAddedAtIndex_lists_the_births.
(* ... and a birth index is the index that was current when the simplex was added: the accepted
   addSimplex records the current index for the new simplex and changes no other; moving the index
   changes none; forceDeleteSimplex forgets only the simplex it removes. *)
Theorem C13_born_at_the_current_index :
  forall f fs id attr f' n, minv f -> FiltBook.binv f -> f_addSimplex f fs id attr = (f', Ok n) ->
  f_addedAtIndex f' n = Ok (f_index f) /\ f_index f' = f_index f /\ forall s, s <> n -> f_addedAtIndex f' s = f_addedAtIndex f s.
Proof. exact FiltBook.add_is_born_at_the_current_index. Qed.
Print Assumptions C13_born_at_the_current_index.
Theorem C13_births_survive_moves_and_other_deletions :
  (forall f i s, f_addedAtIndex (f_setIndex f i) s = f_addedAtIndex f s) /\ (forall f s f' t, minv f -> f_forceDelete f s = (f', Ok tt) -> t <> s ->
                    f_addedAtIndex f' t = f_addedAtIndex f t).
Proof. split; [exact FiltBook.moving_keeps_births|exact FiltBook.forceDelete_keeps_other_births]. Qed.
Print Assumptions C13_births_survive_moves_and_other_deletions.
(* addSimplex never dies of a KeyError in its own tables *)
Theorem C13_addSimplex_tables_never_fail :
  forall f fs id attr f' x, minv f -> FiltBook.binv f -> f_addSimplex f fs id attr = (f', x) ->
  x <> Raise KeyError \/ exists e, x = Raise e /\ f_appears f' = f_appears f.
Proof.
  intros f fs id attr f' x Hm Hb H.
  destruct (FiltBook.addSimplex_binv f fs id attr f' x Hm Hb H) as [[_ K]|[_ K]]; [now left|now right].
Qed.
Print Assumptions C13_addSimplex_tables_never_fail.

(* Filtration.copy(): whatever its outcome, what it returns satisfies both invariants -- a copy is a filtration in
   the sense of every theorem above (monotone views closed under faces, consistent bookkeeping, ascending indices) *)
Theorem C13_a_copy_is_a_legal_filtration :
  forall hp f uid orders hp' c x, f_copy hp f uid orders = (hp', c, x) -> minv c /\ FiltBook.binv c.
Proof. exact FiltCopy.f_copy_invariants. Qed.
Print Assumptions C13_a_copy_is_a_legal_filtration.
