(* C07 -- Smith normal forms and cycle bases.  Theorem statements only. *)
From Coq Require Import ZArith List.
From mathcomp Require Import all_ssreflect all_algebra.
From SV Require Import Names Rep Complex Homology ListMat SnfCount Rank Betti RepInv ZCycles ZProofs ZProofs2 Shapes ShapesReach ZIndep ZAll.
From SV Require ZBoundary.

(* smithNormalForm(k) has the shape of the order-k boundary operator, ones on a leading stretch of
   the diagonal whose length is that operator's GF(2) rank, zeros elsewhere -- for every
   representation and every order (0 and above the maximum included) *)
Theorem C07_snf_shape :
  forall (r : rep) (k : nat),
  let B := boundaryOperator r k in
  let '(nr, nc, D) := smithNormalForm r k in
  nr = nrows B /\ nc = ncols B /\ pidform nr nc (rk B) D.
Proof. exact snf_pidform. Qed.
Print Assumptions C07_snf_shape.

(* Z(k) returns exactly as many chains as the nullity of the order-k boundary operator
   (number of columns minus GF(2) rank) -- for every representation and order *)
Theorem C07_Z_count :
  forall r k, length (Z1 r k) = (length (simplicesOfOrder r k) - rk (boundaryOperator r k))%coq_nat.
Proof. exact Z1_count. Qed.
Print Assumptions C07_Z_count.

(* every chain returned by Z(k) has empty boundary: the mod-2 sum of the boundary-operator columns
   of its members (a member mentioned twice counted twice) is zero in every row -- for every
   complex satisfying the shape invariant, i.e. every complex of every history (C03) *)
Theorem C07_Z_chains_are_cycles :
  forall r k ch, sinv r -> List.In ch (Z1 r k) ->
  forall i, (i < nrows (boundaryOperator r k))%coq_nat -> vsum name (colval r k) ch i = false.
Proof. exact Z1_are_cycles. Qed.
Print Assumptions C07_Z_chains_are_cycles.
(* Not proved (tested by the oracle on every run): linear independence of the returned chains. *)

(* ... linearly independent mod 2: the matrix over GF(2) whose columns are the parity vectors of
   the returned chains (how often, mod 2, a chain mentions the t-th simplex of the listing) has
   rank = the number of chains *)
Theorem C07_Z_chains_independent :
  forall r k, sinv r ->
  \rank (mxf (length (simplicesOfOrder r k)) (length (Z1 r k))
             (fun t j => par (lab_in (simplicesOfOrder r k)) (List.nth j (Z1 r k) nil) t)) = length (Z1 r k).
Proof. exact Z1_independent_all. Qed.
Print Assumptions C07_Z_chains_independent.

(* Z(k) returns a basis of the cycle group: count, cycles, independence *)
Theorem C07_Z_is_a_cycle_basis :
  forall r k, sinv r ->
  length (Z1 r k) = (length (simplicesOfOrder r k) - rk (boundaryOperator r k))%coq_nat /\
  (forall ch, List.In ch (Z1 r k) ->
     forall i, (i < nrows (boundaryOperator r k))%coq_nat -> vsum name (colval r k) ch i = false) /\
  \rank (mxf (length (simplicesOfOrder r k)) (length (Z1 r k))
             (fun t j => par (lab_in (simplicesOfOrder r k)) (List.nth j (Z1 r k) nil) t)) = length (Z1 r k).
Proof. exact Z1_is_a_cycle_basis. Qed.
Print Assumptions C07_Z_is_a_cycle_basis.

(* THROUGH THE PUBLIC CALL, every complex of every history (shape invariant) and every order:
   boundary() accepts every chain Z() returns -- its members are simplices of that order -- and
   answers the empty list *)
Theorem C07_returned_chains_have_empty_boundary :
  forall r k ch, sinv r -> List.In ch (Z1 r k) -> boundary r ch = Ok nil.
Proof. exact ZBoundary.Z1_boundary_empty. Qed.
Print Assumptions C07_returned_chains_have_empty_boundary.
