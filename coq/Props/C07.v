(* C07 -- Smith normal forms and cycle bases.  Theorem statements only. *)
From Coq Require Import ZArith List.
From mathcomp Require Import all_ssreflect all_algebra.
From SV Require Import Names Rep Complex Homology ListMat SnfCount Rank Betti.

(* smithNormalForm(k) has the shape of the order-k boundary operator, ones on a leading stretch of
   the diagonal whose length is that operator's GF(2) rank, zeros elsewhere -- for every
   representation and every order (0 and above the maximum included) *)
Theorem C07_snf_shape :
  forall (r : rep) (k : nat),
  let B := boundaryOperator r k in
  let '(nr, nc, D) := smithNormalForm r k in
  nr = nrows B /\ nc = ncols B /\ pidform nr nc (rk B) D.
Proof. exact snf_pidform. Qed.
Print Assumptions C07_snf_shape.
