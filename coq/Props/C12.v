(* C12 -- the Vietoris-Rips complex has a simplex exactly on the mutually close point sets.
   Theorem statements only; proofs (by computation in the kernel) in Sweeps.v and Floats.v.
   The model separates the two halves of vietorisRipsComplex: (1) which pairs are close -- the
   binary64 test distance(p, q) <= eps -- and (2) the complex built from the close pairs.
   BOUNDED: (2) for every closeness relation on at most 4 points (all 2^6 of them and fewer
   points), including the empty relation (just the points) and the full one (the full simplex),
   and inclusion of families for every pair of nested relations on 4 points; (1) on exactly
   representable examples.  For arbitrary doubles the tie with the code is the correspondence
   and the oracle (tested_only). *)
From Coq Require Import String ZArith Bool Arith List PrimFloat.
From SV Require Import Names Rep Complex Homology Filtration Gen World Small Sweeps Floats.
Import ListNotations.

Theorem C12_family_upto4_partial :
  forallb (fun n => forallb (chk_vr n) (sublists (all_pairs n))) (seq 0 5) = true.
Proof. exact sweep_vr4. Qed.
Print Assumptions C12_family_upto4_partial.

Theorem C12_monotone_upto4_partial :
  forallb (fun c1 => forallb (chk_vr_monotone 4 c1) (sublists (all_pairs 4))) (sublists (all_pairs 4)) = true.
Proof. exact sweep_vr_monotone4. Qed.
Print Assumptions C12_monotone_upto4_partial.

(* the closeness test in binary64: Euclidean distance, ties at exactly eps included, a negative
   radius excludes even coincident points *)
Theorem C12_closeness_examples :
  distance [0; 0]%float [3; 4]%float = 5%float /\ close 5 [0; 0]%float [3; 4]%float = true /\
  close (-1) [0; 0]%float [0; 0]%float = false /\ distance [2]%float [-1]%float = 3%float.
Proof. split; [exact distance_345|]. split; [exact close_tie|]. split; [exact close_negative | exact distance_1d]. Qed.
Print Assumptions C12_closeness_examples.
