(* C12 -- the Vietoris-Rips complex has a simplex exactly on the mutually close point sets.
   Theorem statements only; proofs (by computation in the kernel) in Sweeps.v and Floats.v.
   The model separates the two halves of vietorisRipsComplex: (1) which pairs are close -- the
   binary64 test distance(p, q) <= eps -- and (2) the complex built from the close pairs.
   BOUNDED: (2) for every closeness relation on at most 4 points (all 2^6 of them and fewer
   points), including the empty relation (just the points) and the full one (the full simplex),
   and inclusion of families for every pair of nested relations on 4 points; (1) on exactly
   representable examples.  For arbitrary doubles the tie with the code is the correspondence
   and the oracle (tested_only). *)
From Coq Require Import String ZArith Bool Arith List PrimFloat.
From SV Require Import Names Rep Complex Homology Filtration Gen World Small Sweeps Floats VInv FlagSound FlagComplete VRProofs CopyOk FlagFinal.
From SV Require FloatMono.
Import ListNotations.

Theorem C12_family_upto4_partial :
  forallb (fun n => forallb (chk_vr n) (sublists (all_pairs n))) (seq 0 5) = true.
Proof. exact sweep_vr4. Qed.
Print Assumptions C12_family_upto4_partial.

Theorem C12_monotone_upto4_partial :
  forallb (fun c1 => forallb (chk_vr_monotone 4 c1) (sublists (all_pairs 4))) (sublists (all_pairs 4)) = true.
Proof. exact sweep_vr_monotone4. Qed.
Print Assumptions C12_monotone_upto4_partial.

(* the closeness test in binary64: Euclidean distance, ties at exactly eps included, a negative
   radius excludes even coincident points *)
Theorem C12_closeness_examples :
  distance [0; 0]%float [3; 4]%float = 5%float /\ close 5 [0; 0]%float [3; 4]%float = true /\
  close (-1) [0; 0]%float [0; 0]%float = false /\ distance [2]%float [-1]%float = 3%float.
Proof. split; [exact distance_345|]. split; [exact close_tie|]. split; [exact close_negative | exact distance_1d]. Qed.
Print Assumptions C12_closeness_examples.

(* EVERY FINITE SET OF POINTS, EVERY SET OF CLOSE PAIRS ------------------------------------------------
   The model runs vietorisRipsComplex as the code does: a private complex with the embedding's points
   (same names) and one edge per close pair (i < j in the listing of points), then its flag complex.
   `close` is the list of pairs for which the code's `distance(...) <= eps` held; the binary64 test
   itself is Floats.close, tied to the code bit for bit on every run (floatcorr).  For every such
   list: the result meets the vertex-set reading, has exactly the embedding's points, and a set B of
   two or more points carries a simplex EXACTLY WHEN every two points of B are a close pair (vr_fam). *)
Theorem C12_family :
  forall hp uid u r close vr,
  NoDup (simplicesOfOrder r 0) ->
  (forall ij, In ij close -> fst ij < snd ij /\ snd ij < length (simplicesOfOrder r 0)) ->
  vr_build uid r close = (vr, Ok tt) ->
  exists hp1 r', flagComplex hp vr u = (hp1, r', Ok tt) /\ vinv r' /\
    (forall p, carried r' [p] <-> In p (simplicesOfOrder r 0)) /\
    vr_fam (simplicesOfOrder r 0) close r'.
Proof. exact vr_complex_family. Qed.
Print Assumptions C12_family.

(* eps1 <= eps2 gives fewer close pairs: the family at eps1 is contained in the family at eps2 *)
Theorem C12_monotone :
  forall ss close1 close2 r1 r2, incl close1 close2 -> vr_fam ss close1 r1 -> vr_fam ss close2 r2 ->
  forall B, NoDup B -> 2 <= length B -> carried r1 B -> carried r2 B.
Proof. exact vr_monotone. Qed.
Print Assumptions C12_monotone.

(* no close pair (a negative radius): just the points *)
Theorem C12_no_close_pair_just_the_points :
  forall ss r', vr_fam ss [] r' -> forall B, NoDup B -> 2 <= length B -> ~ carried r' B.
Proof. exact vr_no_pairs. Qed.
Print Assumptions C12_no_close_pair_just_the_points.

(* every pair close (a radius at least the diameter): the full simplex on all points *)
Theorem C12_all_pairs_close_full_simplex :
  forall ss close r', NoDup ss -> (forall i j, i < j -> j < length ss -> In (i, j) close) -> vr_fam ss close r' ->
  forall B, NoDup B -> 2 <= length B -> incl B ss -> carried r' B.
Proof. exact vr_all_pairs. Qed.
Print Assumptions C12_all_pairs_close_full_simplex.

(* ON DOUBLES: the closeness test distance(p, q) <= eps is monotone in eps -- a pair close at eps1 is close at every
   eps2 with eps1 <= eps2 -- so the list of close pairs handed to the construction grows with eps, and with
   C12_monotone so does the complex.  Uses the standard library's specification of the primitive comparison
   (FloatAxioms.leb_spec, an axiom of the standard library: leb is SFleb on the decoded numbers); transitivity of SFleb
   is proved by cases. *)
Theorem C12_closeness_is_monotone_in_eps :
  forall eps1 eps2 (pairs : list (list float * list float)), PrimFloat.leb eps1 eps2 = true ->
  incl (filter (fun pq => close eps1 (fst pq) (snd pq)) pairs) (filter (fun pq => close eps2 (fst pq) (snd pq)) pairs).
Proof. exact FloatMono.close_pairs_monotone. Qed.
Print Assumptions C12_closeness_is_monotone_in_eps.
