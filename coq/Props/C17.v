(* C17 -- JSON encoding round-trips, at the level of the encoded structure (list of
   {id, faces, attributes} in listing order); the text layer is Python's json module (exercised by
   the correspondence, not modelled).
   BOUNDED: every complex on at most 4 labelled points, with names tied to vertex sets and with
   library-generated names: decoding the encoding gives the same names in the same listing
   order, the same orders and faces, and a well-formed complex. *)
From Coq Require Import String ZArith Bool Arith List.
From SV Require Import Names Rep Complex Homology Filtration Gen World Small Sweeps.

Theorem C17_roundtrip_upto4_partial : forall c, In c complexes4 ->
  chk_json (build_named 1 c) && chk_json (build c) = true.
Proof. exact json_upto4. Qed.
Print Assumptions C17_roundtrip_upto4_partial.

(* the encoding lists the simplices in listing order, hence every simplex after all of its faces *)
Theorem C17_listing_order : forall hp v, map j_id (encode_view hp v) = map fst v.
Proof. intros hp v. unfold encode_view. rewrite map_map. reflexivity. Qed.
Print Assumptions C17_listing_order.
