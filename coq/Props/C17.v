(* C17 -- JSON encoding round-trips, at the level of the encoded structure (list of
   {id, faces, attributes} in listing order); the text layer is Python's json module (exercised by
   the correspondence, not modelled).
   BOUNDED: every complex on at most 4 labelled points, with names tied to vertex sets and with
   library-generated names: decoding the encoding gives the same names in the same listing
   order, the same orders and faces, and a well-formed complex. *)
From Coq Require Import String ZArith Bool Arith List.
From SV Require Import Names NamesFacts Rep Complex Homology Filtration Gen World Small Sweeps Shapes JsonProofs.
From SV Require Import VInv JsonOk.


Theorem C17_roundtrip_upto4_partial : forall c, In c complexes4 ->
  chk_json (build_named 1 c) && chk_json (build c) = true.
Proof. exact json_upto4. Qed.
Print Assumptions C17_roundtrip_upto4_partial.

(* the encoding lists the simplices in listing order, hence every simplex after all of its faces *)
Theorem C17_listing_order : forall hp v, map j_id (encode_view hp v) = map fst v.
Proof. intros hp v. unfold encode_view. rewrite map_map. reflexivity. Qed.
Print Assumptions C17_listing_order.

(* EVERY COMPLEX (structure level): decoding the encoding of a complex, when the decoder accepts
   it, yields a complex with exactly the source's names, each with its order (|faces| - 1), exactly
   its faces, and an attribute dictionary of its own holding the source dictionary's contents *)
Theorem C17_roundtrip :
  forall hp0 src hp uid hp' r', uid <> 0 ->
  decode hp (empty_rep uid) (encode_view hp0 (view_of src)) = (hp', r', Ok tt) ->
  sinv r' /\
  (forall s, containsSimplex r' s = memn s (simplices src false)) /\
  (forall s, In s (simplices src false) ->
     orderOf r' s = Ok (length (faces src s) - 1) /\ (forall t, In t (faces r' s) <-> In t (faces src s)) /\
     exists h', assoc s (r_attr r') = Some h' /\ fst h' = uid /\
       heap_get hp' h' = heap_get hp0 (match assoc s (r_attr src) with Some h => h | None => (0, 0) end)).
Proof. exact json_roundtrip. Qed.
Print Assumptions C17_roundtrip.

(* the decoder accepts the encoding of every complex that meets the vertex-set reading (at the level of
   the encoded records: it replays the adds of copy(), which never fail) *)
Theorem C17_decoder_accepts_every_encoding :
  forall src hp0 hp uid, vinv src ->
  exists hp' r', decode hp (empty_rep uid) (encode_view hp0 (view_of src)) = (hp', r', Ok tt).
Proof. exact json_decode_succeeds. Qed.
Print Assumptions C17_decoder_accepts_every_encoding.
