(* C11 -- flagComplex is the clique complex of the 1-skeleton.
   Theorem statements only; proofs (by computation in the kernel) in Sweeps.v.
   BOUNDED: every complex on at most 4 labelled points (not only graphs): the family of the flag
   complex is exactly the clique family, it contains the source with its names, it is well formed,
   and taking the flag complex again adds nothing.  growFlagComplex = rebuild: tested only. *)
From Coq Require Import String ZArith Bool Arith List.
From SV Require Import Names Rep Complex Homology Filtration Gen World Small Sweeps.

Theorem C11_flag_is_clique_complex_upto4_partial : forall c, In c complexes4 -> chk_flag (build c) = true.
Proof. exact flag_upto4. Qed.
Print Assumptions C11_flag_is_clique_complex_upto4_partial.
