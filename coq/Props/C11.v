(* C11 -- flagComplex is the clique complex of the 1-skeleton.
   Theorem statements only; proofs (by computation in the kernel) in Sweeps.v.
   BOUNDED: every complex on at most 4 labelled points (not only graphs): the family of the flag
   complex is exactly the clique family, it contains the source with its names, it is well formed,
   and taking the flag complex again adds nothing.  growFlagComplex = rebuild: tested only. *)
From Coq Require Import String ZArith Bool Arith List.
From SV Require Import Names Rep Complex Homology Filtration Gen World Small Sweeps NamesFacts RepInv Shapes FlagExt VInv DD MinCycle FlagSound FlagComplete CopyOk VRProofs FlagFinal GrowComplete.

Import ListNotations.

Theorem C11_flag_is_clique_complex_upto4_partial : forall c, In c complexes4 -> chk_flag (build c) = true.
Proof. exact flag_upto4. Qed.
Print Assumptions C11_flag_is_clique_complex_upto4_partial.

(* EVERY COMPLEX: the flag complex of K has exactly K's points and edges (whatever else it contains
   has order >= 2) and contains K with K's names, orders and faces *)
Theorem C11_flag_contains_source_and_adds_only_higher_simplices :
  forall hp src uid hp' r', flagComplex hp src uid = (hp', r', Ok tt) ->
  sinv r' /\
  (forall s, In s (simplices src false) ->
     containsSimplex r' s = true /\ orderOf r' s = Ok (length (faces src s) - 1) /\
     forall t, In t (faces r' s) <-> In t (faces src s)) /\
  (forall s, containsSimplex r' s = true ->
     In s (simplices src false) \/ exists k, orderOf r' s = Ok k /\ 2 <= k).
Proof. exact flagComplex_contains_source. Qed.
Print Assumptions C11_flag_contains_source_and_adds_only_higher_simplices.
(* growFlagComplex likewise only adds simplices of order >= 2 and touches nothing that was there *)
Theorem C11_grow_adds_only_higher_simplices :
  forall r news r' x, sinv r -> growFlagComplex r news = (r', x) -> ext2 r r'.
Proof. exact growFlagComplex_ext. Qed.
Print Assumptions C11_grow_adds_only_higher_simplices.

(* EVERY COMPLEX THAT MEETS THE VERTEX-SET READING (every in-contract history, C01) ------------------- *)
(* the minimal-cycle lemma behind `_isClosed`: k+3 distinct simplices of order k+1 such that every
   simplex is a face of an even number of them are the facets of one set B of k+3 points *)
Theorem C11_closed_combination_is_a_set_of_facets :
  forall r, vinv r -> forall k fs, NoDup fs -> length fs = S (S (S k)) ->
  (forall f, In f fs -> exists j, assoc f (r_simp r) = Some (S k, j)) ->
  (forall w, parity (map (fun f => memn w (faces r f)) fs) = false) ->
  exists B, NoDup B /\ length B = S (S (S k)) /\
     (forall f, In f fs -> incl (basisOf r f) B) /\
     (forall p, In p B -> exists f, In f fs /\ In p (basisOf r f)).
Proof. exact min_cycle. Qed.
Print Assumptions C11_closed_combination_is_a_set_of_facets.

(* soundness of flagComplex: the result meets the vertex-set reading again (k+1 points per simplex
   of order k, no two simplices on one point set, closed under subsets) and every simplex of it sits
   on points that are pairwise joined by an edge OF THE SOURCE *)
Theorem C11_flag_simplices_sit_on_cliques :
  forall hp src uid hp' r', vinv src -> flagComplex hp src uid = (hp', r', Ok tt) ->
  vinv r' /\
  (forall t p q, containsSimplex r' t = true -> In p (basisOf r' t) -> In q (basisOf r' t) -> p <> q ->
     edge_of src p q).
Proof. exact flagComplex_sound. Qed.
Print Assumptions C11_flag_simplices_sit_on_cliques.

(* the same for growFlagComplex, whatever it is given and however it ends *)
Theorem C11_grow_simplices_sit_on_cliques :
  forall r news r' x, vinv r -> growFlagComplex r news = (r', x) ->
  vinv r' /\
  (forall t p q, containsSimplex r' t = true -> In p (basisOf r' t) -> In q (basisOf r' t) -> p <> q ->
     edge_of r p q).
Proof. exact growFlagComplex_sound. Qed.
Print Assumptions C11_grow_simplices_sit_on_cliques.

(* THE STATEMENT OF C11, for every complex that meets the vertex-set reading: flagComplex ends normally,
   its result meets the reading again, and a set B of two or more points carries a simplex of the result
   EXACTLY WHEN every two points of B are joined by an edge of the source.
   (Found while proving this: the loop bound `maxk = k` of `_completePotentialSimplices` could be lowered by a
   fill at a low order, so that higher orders were never visited -- repaired in /repo, fix 31adc94; the proof
   needs the invariant "no simplex above maxk".) *)
Theorem C11_flag_complex_is_the_clique_complex :
  forall hp src uid, vinv src ->
  exists hp1 r', flagComplex hp src uid = (hp1, r', Ok tt) /\ vinv r' /\
    forall B, NoDup B -> 2 <= length B -> (carried r' B <-> clique src B).
Proof. exact flag_complex_is_clique_complex. Qed.
Print Assumptions C11_flag_complex_is_the_clique_complex.

(* "whenever all facets of a possible simplex are present the simplex is too" *)
Theorem C11_facets_present_simplex_present :
  forall hp src uid, vinv src ->
  exists hp1 r', flagComplex hp src uid = (hp1, r', Ok tt) /\
    forall B, NoDup B -> 3 <= length B -> (forall x, In x B -> carried r' (drop x B)) -> carried r' B.
Proof. exact flag_complex_fills_facets. Qed.
Print Assumptions C11_facets_present_simplex_present.

(* "taking the flag complex again adds nothing" *)
Theorem C11_flag_complex_idempotent :
  forall hp src uid hp1 r1 hp' uid', vinv src -> flagComplex hp src uid = (hp1, r1, Ok tt) ->
  exists hp2 r2, flagComplex hp' r1 uid' = (hp2, r2, Ok tt) /\
    forall B, NoDup B -> 2 <= length B -> (carried r2 B <-> carried r1 B).
Proof. exact flag_complex_idempotent. Qed.
Print Assumptions C11_flag_complex_idempotent.

(* "Adding edges to a flag complex and calling growFlagComplex with them yields the same family as building the
   flag complex of the enlarged graph from scratch."  Stated for any list `news` of simplices of r such that
   (1) whatever simplex of r has the points of one of them among its points is itself one of them -- new edges just
   added have no cofaces yet -- and (2) r is flag-complete apart from them: every clique of r's edges that does not
   contain the points of a new simplex carries a simplex (r was a flag complex before the edges were added).
   Then growFlagComplex ends normally, keeps the vertex-set reading and every old simplex, and a set of two or more
   points carries a simplex exactly when it is a clique of r's edges ... *)
Theorem C11_grow_completes_the_flag_complex :
  forall r news, vinv r -> news <> [] ->
  (forall s, In s news -> containsSimplex r s = true) ->
  let TB := map (basisOf r) news in
  (forall t, containsSimplex r t = true -> taintb TB (basisOf r t) = true -> In t news) ->
  (forall B, NoDup B -> 2 <= length B -> clique r B -> taintb TB B = false -> carried r B) ->
  exists r', growFlagComplex r news = (r', Ok tt) /\ vinv r' /\ ext2b r r' /\
    forall B, NoDup B -> 2 <= length B -> (carried r' B <-> clique r B).
Proof. exact growFlagComplex_complete. Qed.
Print Assumptions C11_grow_completes_the_flag_complex.
(* ... which is the family flagComplex builds from scratch *)
Theorem C11_grow_equals_rebuild :
  forall hp uid r news, vinv r -> news <> [] ->
  (forall s, In s news -> containsSimplex r s = true) ->
  let TB := map (basisOf r) news in
  (forall t, containsSimplex r t = true -> taintb TB (basisOf r t) = true -> In t news) ->
  (forall B, NoDup B -> 2 <= length B -> clique r B -> taintb TB B = false -> carried r B) ->
  forall hp1 c, copy_new hp (view_of r) uid = (hp1, c, Ok tt) ->
  exists r' rF, growFlagComplex r news = (r', Ok tt) /\ flagComplex hp r uid = (hp1, rF, Ok tt) /\
    forall B, NoDup B -> 2 <= length B -> (carried r' B <-> carried rF B).
Proof. exact grow_equals_rebuild. Qed.
Print Assumptions C11_grow_equals_rebuild.
