(* C11 -- flagComplex is the clique complex of the 1-skeleton.
   Theorem statements only; proofs (by computation in the kernel) in Sweeps.v.
   BOUNDED: every complex on at most 4 labelled points (not only graphs): the family of the flag
   complex is exactly the clique family, it contains the source with its names, it is well formed,
   and taking the flag complex again adds nothing.  growFlagComplex = rebuild: tested only. *)
From Coq Require Import String ZArith Bool Arith List.
From SV Require Import Names Rep Complex Homology Filtration Gen World Small Sweeps NamesFacts RepInv Shapes FlagExt.

Theorem C11_flag_is_clique_complex_upto4_partial : forall c, In c complexes4 -> chk_flag (build c) = true.
Proof. exact flag_upto4. Qed.
Print Assumptions C11_flag_is_clique_complex_upto4_partial.

(* EVERY COMPLEX: the flag complex of K has exactly K's points and edges (whatever else it contains
   has order >= 2) and contains K with K's names, orders and faces *)
Theorem C11_flag_contains_source_and_adds_only_higher_simplices :
  forall hp src uid hp' r', flagComplex hp src uid = (hp', r', Ok tt) ->
  sinv r' /\
  (forall s, In s (simplices src false) ->
     containsSimplex r' s = true /\ orderOf r' s = Ok (length (faces src s) - 1) /\
     forall t, In t (faces r' s) <-> In t (faces src s)) /\
  (forall s, containsSimplex r' s = true ->
     In s (simplices src false) \/ exists k, orderOf r' s = Ok k /\ 2 <= k).
Proof. exact flagComplex_contains_source. Qed.
Print Assumptions C11_flag_contains_source_and_adds_only_higher_simplices.
(* growFlagComplex likewise only adds simplices of order >= 2 and touches nothing that was there *)
Theorem C11_grow_adds_only_higher_simplices :
  forall r news r' x, sinv r -> growFlagComplex r news = (r', x) -> ext2 r r'.
Proof. exact growFlagComplex_ext. Qed.
Print Assumptions C11_grow_adds_only_higher_simplices.
