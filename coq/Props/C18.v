(* C18 -- generators build exactly the advertised spaces.
   Theorem statements only; proofs (by computation in the kernel) in Sweeps.v, over the range the
   property states: k <= 6, n <= 12, lattices up to 6 x 6; targets: every complex on <= 3 points. *)
From Coq Require Import String ZArith Bool Arith List.
From SV Require Import Names Rep Complex Homology Filtration Gen World Small Sweeps VInv AwbSpec VSets GenSets.
From SV Require Import Counts.


(* k_simplex(k): C(k+1, j+1) simplices of order j, Betti 1,0,..,0, top simplex named as asked;
   k_void(k): all proper faces of a (k+1)-simplex, a k-sphere; k_skeleton(k): k+1 points and all
   edges; ring(n): n points, n edges, every point on two edges, Betti 1,1 (ValueError for n <= 2) *)
Theorem C18_generators_in_range :
  forallb chk_k_simplex (seq 0 7) && forallb chk_k_void (seq 0 6) && forallb chk_k_skeleton (seq 0 7) &&
  forallb chk_ring (seq 0 13) = true.
Proof. exact sweep_generators. Qed.
Print Assumptions C18_generators_in_range.

(* TriangularLattice(r, c), 1 <= r, c <= 6: r*c points; for r >= 2 Euler characteristic 1,
   Betti 1,0,0 (connected, no holes), no simplex above order 2 *)
Theorem C18_lattices_in_range : forallb (fun r => forallb (chk_lattice r) (seq 1 6)) (seq 1 6) = true.
Proof. exact sweep_lattices. Qed.
Print Assumptions C18_lattices_in_range.

(* each generator, called on an existing complex, leaves every pre-existing simplex as it was and
   builds its structure on fresh points *)
Theorem C18_target_intact_upto3_partial : forall c, In c complexes3 -> chk_gen_frame c = true.
Proof. exact generators_frame_upto3. Qed.
Print Assumptions C18_target_intact_upto3_partial.

(* EVERY COMPLEX THAT MEETS THE VERTEX-SET READING, EVERY k >= 1: k_simplex(k) creates k+1 points that
   were not there; the sets of points that carry a simplex afterwards are those that did before and
   the non-empty subsets of the new points; every pre-existing simplex keeps order, faces, basis *)
Theorem C18_k_simplex_vertex_sets :
  forall k id attr r r', vinv r -> 1 <= k -> k_simplex k id attr r = (r', Ok tt) ->
  exists new, length new = S k /\ NoDup new /\ (forall p, In p new -> containsSimplex r p = false) /\
    vinv r' /\
    (forall t, containsSimplex r t = true ->
       containsSimplex r' t = true /\ orderOf r' t = orderOf r t /\ faces r' t = faces r t /\ basisOf r' t = basisOf r t) /\
    (forall B, NoDup B -> B <> nil ->
       ((exists t, containsSimplex r' t = true /\ sameset (basisOf r' t) B) <->
        (exists t, containsSimplex r t = true /\ sameset (basisOf r t) B) \/ incl B new)).
Proof. exact k_simplex_vertex_sets. Qed.
Print Assumptions C18_k_simplex_vertex_sets.
(* k_void(k): the same on k+2 new points without the top simplex -- the proper non-empty subsets *)
Theorem C18_k_void_vertex_sets :
  forall k r r', vinv r -> k_void k r = (r', Ok tt) ->
  exists new, length new = S (S k) /\ NoDup new /\ (forall p, In p new -> containsSimplex r p = false) /\
    vinv r' /\
    (forall t, containsSimplex r t = true -> containsSimplex r' t = true /\ sameset (basisOf r' t) (basisOf r t)) /\
    (forall B, NoDup B -> B <> nil ->
       ((exists t, containsSimplex r' t = true /\ sameset (basisOf r' t) B) <->
        (exists t, containsSimplex r t = true /\ sameset (basisOf r t) B) \/ (incl B new /\ ~ incl new B))).
Proof. exact k_void_vertex_sets. Qed.
Print Assumptions C18_k_void_vertex_sets.

(* EVERY k, EVERY TARGET THAT MEETS THE VERTEX-SET READING: the counts are the binomials *)
Theorem C18_k_simplex_counts :
  forall k id attr r r', vinv r -> 1 <= k -> k_simplex k id attr r = (r', Ok tt) ->
  forall j, length (simplicesOfOrder r' j) = length (simplicesOfOrder r j) + binom (S k) (S j).
Proof. exact k_simplex_counts. Qed.
Print Assumptions C18_k_simplex_counts.
Theorem C18_k_void_counts :
  forall k r r', vinv r -> k_void k r = (r', Ok tt) ->
  forall j, length (simplicesOfOrder r' j) = length (simplicesOfOrder r j) + (if j <=? k then binom (S (S k)) (S j) else 0).
Proof. exact k_void_counts. Qed.
Print Assumptions C18_k_void_counts.

(* EVERY k, EVERY n, EVERY TARGET.  What k_skeleton(k) and ring(n) add when they succeed (GenEffect.plus r0 news fss r':
   r' is r0 plus the simplices news -- all new, each once --, the i-th with order |fss_i| - 1 and faces fss_i, and every
   simplex of r0 keeps its order and faces): k+1 new points and one new edge for each of the C(k+1, 2) pairs of them;
   n > 2 new points p_0 .. p_(n-1) and the n edges {p_i, p_(i+1)}, {p_(n-1), p_0} *)
From SV Require GenEffect GenFrame AttrInv Counts Shapes.
Import ListNotations.
Theorem C18_k_skeleton_on_any_target :
  forall k r0 r', Shapes.sinv r0 -> k_skeleton k r0 = (r', Ok tt) ->
  exists pts es, length pts = S k /\ length es = Counts.binom (S k) 2 /\
    GenEffect.plus r0 (pts ++ es) (repeat [] (S k) ++ combs 2 pts) r'.
Proof. exact GenEffect.k_skeleton_effect. Qed.
Print Assumptions C18_k_skeleton_on_any_target.
Theorem C18_ring_on_any_target :
  forall n r0 r', Shapes.sinv r0 -> ring n r0 = (r', Ok tt) ->
  2 < n /\ exists pts es, length pts = n /\ length es = n /\
    GenEffect.plus r0 (pts ++ es)
         (repeat [] n ++ map (fun i => [nth i pts (NInt 0); nth (S i) pts (NInt 0)]) (seq 0 (n - 1))
                     ++ [[nth (n - 1) pts (NInt 0); nth 0 pts (NInt 0)]]) r'.
Proof. exact GenEffect.ring_effect. Qed.
Print Assumptions C18_ring_on_any_target.
(* ... and whatever their outcome, every simplex the target had is still there with its order, position, faces, points
   and attribute dictionary (the same object) *)
Theorem C18_skeleton_and_ring_leave_the_target_alone :
  (forall r0 k r' x, AttrInv.ainv r0 -> k_skeleton k r0 = (r', x) -> GenFrame.full_frame r0 r') /\
  (forall r0 n r' x, AttrInv.ainv r0 -> ring n r0 = (r', x) -> GenFrame.full_frame r0 r').
Proof. split; [exact GenFrame.k_skeleton_frame|exact GenFrame.ring_frame]. Qed.
Print Assumptions C18_skeleton_and_ring_leave_the_target_alone.
