(* C18 -- generators build exactly the advertised spaces.
   Theorem statements only; proofs (by computation in the kernel) in Sweeps.v, over the range the
   property states: k <= 6, n <= 12, lattices up to 6 x 6; targets: every complex on <= 3 points. *)
From Coq Require Import String ZArith Bool Arith List.
From SV Require Import Names Rep Complex Homology Filtration Gen World Small Sweeps.

(* k_simplex(k): C(k+1, j+1) simplices of order j, Betti 1,0,..,0, top simplex named as asked;
   k_void(k): all proper faces of a (k+1)-simplex, a k-sphere; k_skeleton(k): k+1 points and all
   edges; ring(n): n points, n edges, every point on two edges, Betti 1,1 (ValueError for n <= 2) *)
Theorem C18_generators_in_range :
  forallb chk_k_simplex (seq 0 7) && forallb chk_k_void (seq 0 6) && forallb chk_k_skeleton (seq 0 7) &&
  forallb chk_ring (seq 0 13) = true.
Proof. exact sweep_generators. Qed.
Print Assumptions C18_generators_in_range.

(* TriangularLattice(r, c), 1 <= r, c <= 6: r*c points; for r >= 2 Euler characteristic 1,
   Betti 1,0,0 (connected, no holes), no simplex above order 2 *)
Theorem C18_lattices_in_range : forallb (fun r => forallb (chk_lattice r) (seq 1 6)) (seq 1 6) = true.
Proof. exact sweep_lattices. Qed.
Print Assumptions C18_lattices_in_range.

(* each generator, called on an existing complex, leaves every pre-existing simplex as it was and
   builds its structure on fresh points *)
Theorem C18_target_intact_upto3_partial : forall c, In c complexes3 -> chk_gen_frame c = true.
Proof. exact generators_frame_upto3. Qed.
Print Assumptions C18_target_intact_upto3_partial.
