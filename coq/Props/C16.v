(* C16 -- compose is the name-respecting union, or a ValueError.
   Theorem statements only; proofs (by computation in the kernel) in Sweeps.v.
   BOUNDED: all 19 x 19 ordered pairs of complexes on at most 3 labelled points with names tied to
   vertex sets (all compatible): the result is the union, each operand a sub-complex of it with its
   names and faces; one single-name perturbation is rejected with ValueError. *)
From Coq Require Import String ZArith Bool Arith List.
From SV Require Import Names Rep Complex Homology Filtration Gen World Small Sweeps.

Theorem C16_union_upto3_partial : forall c1 c2, In c1 complexes3 -> In c2 complexes3 -> chk_compose c1 c2 = true.
Proof. exact compose_upto3. Qed.
Print Assumptions C16_union_upto3_partial.

Theorem C16_incompatible_rejected_example : chk_compose_incompatible = true.
Proof. exact sweep_compose_incompatible. Qed.
Print Assumptions C16_incompatible_rejected_example.
