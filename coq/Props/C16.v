(* C16 -- compose is the name-respecting union, or a ValueError.
   Theorem statements only; proofs (by computation in the kernel) in Sweeps.v.
   BOUNDED: all 19 x 19 ordered pairs of complexes on at most 3 labelled points with names tied to
   vertex sets (all compatible): the result is the union, each operand a sub-complex of it with its
   names and faces; one single-name perturbation is rejected with ValueError. *)
From Coq Require Import String ZArith Bool Arith List.
From SV Require Import Names Rep Complex Homology Filtration Gen World Small Sweeps NamesFacts RepInv Shapes ComposeProofs.
From SV Require Import VInv ComposeOk.


Theorem C16_union_upto3_partial : forall c1 c2, In c1 complexes3 -> In c2 complexes3 -> chk_compose c1 c2 = true.
Proof. exact compose_upto3. Qed.
Print Assumptions C16_union_upto3_partial.

Theorem C16_incompatible_rejected_example : chk_compose_incompatible = true.
Proof. exact sweep_compose_incompatible. Qed.
Print Assumptions C16_incompatible_rejected_example.

(* EVERY PAIR OF COMPLEXES: when a.compose(c) succeeds the result is the union -- it contains
   exactly the simplices of a and of c; those of a have the faces they have in a, the others the
   faces they have in c (and it satisfies the shape invariant) *)
Theorem C16_result_is_the_union :
  forall hp a c uid hp' d, pinv a -> pinv c -> compose hp a c None uid = (hp', d, Ok tt) ->
  sinv d /\
  (forall s, containsSimplex d s = containsSimplex a s || containsSimplex c s) /\
  (forall s, containsSimplex a s = true -> forall t, In t (faces d s) <-> In t (faces a s)) /\
  (forall s, containsSimplex c s = true -> containsSimplex a s = false -> forall t, In t (faces d s) <-> In t (faces c s)).
Proof. exact compose_is_union. Qed.
Print Assumptions C16_result_is_the_union.
(* ... and it succeeds only on compatible operands: the basis each simplex s of c has in c, looked up
   in a, is the basis of s itself when a has the name s, and of no simplex of a otherwise *)
Theorem C16_accepts_only_compatible :
  forall hp a c uid hp' d, pinv c -> compose hp a c None uid = (hp', d, Ok tt) ->
  forall s, containsSimplex c s = true ->
  c_simplexWithBasis a (basisOf c s) false = Ok (if containsSimplex a s then Some s else None).
Proof. exact compose_accepts_only_compatible. Qed.
Print Assumptions C16_accepts_only_compatible.

(* THE OTHER DIRECTION, for complexes that meet the vertex-set reading: when every name the two share denotes
   simplices on the same points (K1) and every point set they share carries the same name (K2), a.compose(c)
   succeeds -- and is then the union (C16_result_is_the_union) *)
Theorem C16_compatible_operands_are_composed :
  forall a c, vinv a -> vinv c ->
  (forall s, containsSimplex c s = true -> containsSimplex a s = true -> sameset (basisOf a s) (basisOf c s)) ->
  (forall s t, containsSimplex c s = true -> containsSimplex a t = true -> sameset (basisOf a t) (basisOf c s) -> t = s) ->
  forall hp uid, exists hp' d, compose hp a c None uid = (hp', d, Ok tt).
Proof. exact compose_succeeds. Qed.
Print Assumptions C16_compatible_operands_are_composed.

(* THE ATTRIBUTES of the result, whenever a.compose(c) succeeds (operands whose dictionaries belong to other owners
   than the new complex -- every two distinct complexes, C09): every simplex of the result has a dictionary of the
   result's own; it holds, for a simplex of both operands, a's dictionary updated with c's (c wins on a shared key:
   ComposeAttrs.merge), for a simplex of c only what c's dictionary holds, for a simplex of a only what a's holds;
   no dictionary of another owner -- in particular none of the operands' -- is written *)
From SV Require ComposeAttrs.
Theorem C16_attributes_of_the_composition :
  forall a c uid hp, pinv a -> pinv c ->
  (forall s h, assoc s (r_attr a) = Some h -> fst h <> uid) ->
  (forall s h, assoc s (r_attr c) = Some h -> fst h <> uid) -> uid <> 0 ->
  forall hp' d, compose hp a c None uid = (hp', d, Ok tt) ->
  (forall s, containsSimplex d s = true ->
     exists h', assoc s (r_attr d) = Some h' /\ fst h' = uid /\
       heap_get hp' h' =
         if containsSimplex c s then
           (if containsSimplex a s
            then ComposeAttrs.merge (heap_get hp (ComposeAttrs.cell a s)) (heap_get hp (ComposeAttrs.cell c s))
            else heap_get hp (ComposeAttrs.cell c s))
         else heap_get hp (ComposeAttrs.cell a s)) /\
  (forall h0, fst h0 <> uid -> heap_get hp' h0 = heap_get hp h0).
Proof. exact ComposeAttrs.compose_attrs. Qed.
Print Assumptions C16_attributes_of_the_composition.
(* the merge: c's entries are written over a's -- reading key k gives the (last) entry for k in c's dictionary if
   there is one, else a's entry *)
Theorem C16_merge_is_update :
  forall dc da k, dict_get (ComposeAttrs.merge da dc) k =
                  match dict_get (rev dc) k with Some v => Some v | None => dict_get da k end.
Proof. exact ComposeAttrs.merge_spec. Qed.
Print Assumptions C16_merge_is_update.

(* THE VERTEX-SET READING of the composition (for operands that meet it): the result meets it, every simplex has the
   points it has in the operand it comes from, and the family of vertex sets of the result is the union of the
   operands' families *)
From SV Require VIso2 FlagComplete.
Theorem C16_composition_meets_the_vertex_set_reading :
  forall hp a c uid hp' d, vinv a -> vinv c -> compose hp a c None uid = (hp', d, Ok tt) ->
  vinv d /\ forall s, containsSimplex d s = true -> sameset (basisOf d s) (basisOf (if containsSimplex a s then a else c) s).
Proof. exact VIso2.compose_vinv. Qed.
Print Assumptions C16_composition_meets_the_vertex_set_reading.
Theorem C16_family_of_the_composition_is_the_union :
  forall hp a c uid hp' d, vinv a -> vinv c -> compose hp a c None uid = (hp', d, Ok tt) ->
  forall B, FlagComplete.carried d B <-> FlagComplete.carried a B \/ FlagComplete.carried c B.
Proof. exact VIso2.compose_family. Qed.
Print Assumptions C16_family_of_the_composition_is_the_union.
