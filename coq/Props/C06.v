(* C06 -- Betti numbers are the mod-2 homology ranks of the stored complex.
   Theorem statements only; proofs are in Rank.v / Betti.v. *)
From Coq Require Import ZArith List.
From mathcomp Require Import all_ssreflect all_algebra.
From SV Require Import Names Rep Complex Homology ListMat SnfCount Rank Betti EulerP Gen RepInv Shapes Incidence Closed ClosedReach Components Betti0 RelabelAll.
From SV Require VInv SameFamily RankPerm SameBetti World JsonBetti.
Import ListNotations.

(* the elimination of _reduceBoundaries, on every 0/1 matrix of every shape, ends in the partial
   identity whose size is the GF(2) rank (Mathematical Components' \rank over 'F_2) of its input *)
Theorem C06_reduce_rank :
  forall (rb cb : nat) (L : Type) (M : bmat) (cls : list (list L)), wfm rb cb M ->
  let D := fst (reduceB rb cb M cls) in
  let r := \rank (mxf rb cb (entry M)) in
  wfm rb cb D /\ forall i j, (i < rb)%coq_nat -> (j < cb)%coq_nat -> entry D i j = (i == j) && (i < r)%N.
Proof. exact reduce_rank. Qed.
Print Assumptions C06_reduce_rank.

(* bettiNumbers()[k] = (n_k - rank d_k) - rank d_(k+1) = dim ker d_k - rank d_(k+1), for every
   representation and every order k (n_k = number of columns of the order-k boundary operator) *)
Theorem C06_betti :
  forall (r : rep) (k : nat),
  betti1 r k = Z.sub (Z.sub (Z.of_nat (ncols (boundaryOperator r k))) (Z.of_nat (rk (boundaryOperator r k))))
                     (Z.of_nat (rk (boundaryOperator r (S k)))).
Proof. exact betti_formula. Qed.
Print Assumptions C06_betti.

(* orders above the maximum report 0 *)
Theorem C06_above_max : forall (r : rep) (k : nat), (r_nord r <= k)%coq_nat -> (0 < k)%coq_nat -> betti1 r k = Z0.
Proof. exact betti_above_max. Qed.
Print Assumptions C06_above_max.

(* the alternating sum over all orders equals the alternating sum of the numbers of k-simplices
   (columns of d_k), i.e. the Euler characteristic *)
Theorem C06_euler_poincare :
  forall r, alt_sumZ (Zpos xH) (List.map (betti1 r) (List.seq 0 (r_nord r))) =
            alt_sumZ (Zpos xH) (List.map (fun k => Z.of_nat (ncols (boundaryOperator r k))) (List.seq 0 (r_nord r))).
Proof. exact euler_poincare. Qed.
Print Assumptions C06_euler_poincare.

(* non-vacuity / field check by computation in the kernel: the model's Betti numbers of the
   2-sphere, the 7-vertex torus and the 6-vertex projective plane (1,1,1 over GF(2), not 1,0,0) *)
Definition build (faces : list (list nat)) : rep :=
  fst (fold_left (fun acc bs => c_addSimplexWithBasis (fst acc) (List.map (fun n => NInt (Z.of_nat n)) bs) None None)
                 faces (empty_rep 1, Ok (NInt Z0))).
Definition bettis (r : rep) : list Z := List.map (fun k => betti1 r k) (List.seq 0 (r_nord r)).
Example C06_sphere : bettis (build [[0;1;2];[0;1;3];[0;2;3];[1;2;3]]) = List.map Z.of_nat [1; 0; 1].
Proof. vm_compute. reflexivity. Qed.
Example C06_torus :
  bettis (build [[0;1;3];[1;2;4];[2;3;5];[3;4;6];[0;4;5];[1;5;6];[0;2;6];[0;1;5];[1;2;6];[0;2;3];[1;3;4];[2;4;5];[3;5;6];[0;4;6]])
  = List.map Z.of_nat [1; 2; 1].
Proof. vm_compute. reflexivity. Qed.
Example C06_projective_plane :
  bettis (build [[0;1;2];[0;2;3];[0;3;4];[0;4;5];[0;1;5];[1;2;4];[2;3;5];[1;3;4];[2;4;5];[1;3;5]]) = List.map Z.of_nat [1; 1; 1].
Proof. vm_compute. reflexivity. Qed.

(* THE 0TH BETTI NUMBER IS THE NUMBER OF CONNECTED COMPONENTS: for every complex built by public
   operations (cinv) that has edges, bettiNumbers()[0] is the number of connected components --
   as counted by Mathematical Components' n_comp -- of the graph on the points in which two points
   are adjacent when they are the two ends of an edge (adjB of the order-1 boundary operator B1) *)
Theorem C06_betti0_is_the_number_of_components :
  forall r, cinv r -> (1 < r_nord r)%coq_nat -> betti1 r 0 = Z.of_nat (n_comp (adjB (B1 r)) predT).
Proof. exact betti0_components. Qed.
Print Assumptions C06_betti0_is_the_number_of_components.
(* ... adjacency spelled out on the boundary operator: distinct points that are both faces of one edge *)
Theorem C06_adjacency_is_sharing_an_edge :
  forall r (a b : 'I_(nrows (boundaryOperator r 1))),
  reflect (exists j : 'I_(ncols (boundaryOperator r 1)),
             [/\ a != b, mentry (boundaryOperator r 1) a j & mentry (boundaryOperator r 1) b j])
          (adjB (B1 r) a b).
Proof. exact adjB_B1. Qed.
Print Assumptions C06_adjacency_is_sharing_an_edge.
(* ... and without edges every point is a component of its own *)
Theorem C06_betti0_without_edges :
  forall r, sinv r -> (r_nord r <= 1)%coq_nat -> betti1 r 0 = Z.of_nat (length (simplicesOfOrder r 0)).
Proof. exact betti0_no_edges. Qed.
Print Assumptions C06_betti0_without_edges.
(* the linear algebra behind it: a matrix over GF(2) with exactly two ones in every column has
   rank = #rows - #connected components *)
Theorem C06_rank_of_an_incidence_matrix :
  forall n m (B : 'M['F_2]_(n, m)),
  (forall j, exists a b : 'I_n, a != b /\ forall i, B i j = GRing.natmul (GRing.one _) ((i == a) || (i == b))) ->
  (\rank B + n_comp (adjB B) predT = n)%N.
Proof. exact rank_graph. Qed.
Print Assumptions C06_rank_of_an_incidence_matrix.
(* the Betti numbers do not depend on the names: a renaming leaves them unchanged *)
Theorem C06_independent_of_names :
  forall phi r r', renamed_by phi r r' -> forall ks, bettiNumbers r' ks = bettiNumbers r ks.
Proof. intros phi r r' H. exact (proj1 (proj2 (proj2 (renamed_homology phi r r' H)))). Qed.
Print Assumptions C06_independent_of_names.

(* "THE RESULT DEPENDS ONLY ON THE FAMILY OF VERTEX SETS": two complexes that meet the vertex-set reading (every
   in-contract history, copies, snapshots, flag and Vietoris-Rips results) and carry simplices on the same sets of
   points -- whatever the simplex names, the order of insertion, the deletions on the way -- have the same Betti
   numbers: equally many simplices per order, and boundary operators that differ by a re-indexing of rows and
   columns, under which Mathematical Components' \rank over 'F_2 is invariant *)
Theorem C06_depends_only_on_the_family_of_vertex_sets :
  forall r1 r2 k, VInv.vinv r1 -> VInv.vinv r2 -> SameFamily.same_family r1 r2 -> betti1 r1 k = betti1 r2 k.
Proof. exact SameBetti.same_betti. Qed.
Print Assumptions C06_depends_only_on_the_family_of_vertex_sets.
Theorem C06_a_copy_has_the_betti_numbers_of_its_source :
  forall hp src uid hp' c k, VInv.vinv src -> copy_new hp (view_of src) uid = (hp', c, Ok tt) -> betti1 c k = betti1 src k.
Proof. exact SameBetti.copy_same_betti. Qed.
Print Assumptions C06_a_copy_has_the_betti_numbers_of_its_source.
Theorem C06_the_decoded_encoding_has_the_betti_numbers_of_the_complex :
  forall src hp0 hp uid hp' r' k, VInv.vinv src ->
  World.decode hp (empty_rep uid) (World.encode_view hp0 (view_of src)) = (hp', r', Ok tt) -> betti1 r' k = betti1 src k.
Proof. exact JsonBetti.json_same_betti. Qed.
Print Assumptions C06_the_decoded_encoding_has_the_betti_numbers_of_the_complex.
Theorem C06_rank_invariant_under_reindexing :
  forall m n (f g : nat -> nat -> bool) (sg tau : nat -> nat),
  (forall i, (i < m)%N -> (sg i < m)%N) -> (forall i i', (i < m)%N -> (i' < m)%N -> sg i = sg i' -> i = i') ->
  (forall j, (j < n)%N -> (tau j < n)%N) -> (forall j j', (j < n)%N -> (j' < n)%N -> tau j = tau j' -> j = j') ->
  (forall i j, (i < m)%N -> (j < n)%N -> f i j = g (sg i) (tau j)) ->
  \rank (Rank.mxf m n f) = \rank (Rank.mxf m n g).
Proof. exact RankPerm.rank_reindex. Qed.
Print Assumptions C06_rank_invariant_under_reindexing.
