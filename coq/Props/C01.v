(* C01 -- every reachable complex is a well-formed complex: the part proved for every history.
   Theorem statements only; proofs in Fresh.v, RepInv.v, Reach.v.

   Proved here, for all finite histories of the representation's mutators (rejected calls
   included) and through every algorithm of base.py: names are unique, simplices() lists each
   simplex exactly once and is the concatenation of the per-order listings in increasing order,
   orderOf/indexOf are the position in the listing, generated names never collide with a name in
   use.  Not proved (tested by the oracle, see evidence tested_only): the face/basis counts and
   closedness (each simplex of order k has k+1 faces of order k-1 and a basis of k+1 points). *)
From Coq Require Import String ZArith Bool Arith List.
From SV Require Import Names NamesFacts ListFacts Rep Fresh Complex Atomic RepInv Reach Homology Filtration Gen World Small Sweeps Shapes AddEffect Closed ClosedReach VInv AwbSpec VReach VSets.
From SV Require Import TopOrder.
From SV Require VIso2 BulkVinv SubdivVinv.

Import ListNotations.

(* the invariant holds after any sequence of add / relabel / delete requests on the representation,
   whatever their arguments -- a rejected request is a step like any other *)
Theorem C01_reachable_invariant : forall uid ops, pinv (fold_left rstep ops (empty_rep uid)).
Proof. exact reachable_pinv. Qed.
Print Assumptions C01_reachable_invariant.

(* and it is kept by the public mutators of SimplicialComplex *)
Theorem C01_delete_keeps : forall r s r' x, pinv r -> deleteSimplex r s = (r', x) -> pinv r'.
Proof. exact deleteSimplex_pinv. Qed.
Print Assumptions C01_delete_keeps.
Theorem C01_restrict_keeps : forall r bs r' x, pinv r -> restrictBasisTo r bs = (r', x) -> pinv r'.
Proof. exact restrictBasisTo_pinv. Qed.
Print Assumptions C01_restrict_keeps.
Theorem C01_add_by_basis_keeps :
  forall r bs id attr r' x, pinv r -> c_addSimplexWithBasis r bs id attr = (r', x) -> pinv r'.
Proof. exact addSimplexWithBasis_pinv. Qed.
Print Assumptions C01_add_by_basis_keeps.
Theorem C01_subdivide_keeps : forall r s pts r' x, pinv r -> barycentricSubdivide r s pts = (r', x) -> pinv r'.
Proof. exact barycentricSubdivide_pinv. Qed.
Print Assumptions C01_subdivide_keeps.
Theorem C01_relabel_keeps : forall r rn r' st x, pinv r -> relabel r rn = (r', st, x) -> pinv r'.
Proof. exact relabel_pinv. Qed.
Print Assumptions C01_relabel_keeps.
Theorem C01_bulk_add_keeps :
  forall hp r src rn hp' r' st x, pinv r -> addSimplicesFrom hp r src rn = (hp', r', st, x) -> pinv r'.
Proof. exact addSimplicesFrom_pinv. Qed.
Print Assumptions C01_bulk_add_keeps.

(* observable consequences *)
Theorem C01_names_unique :
  forall r s k i k' i', pinv r ->
  nth_error (simplicesOfOrder r k) i = Some s -> nth_error (simplicesOfOrder r k') i' = Some s -> k = k' /\ i = i'.
Proof. exact listed_once. Qed.
Print Assumptions C01_names_unique.

Theorem C01_simplices_lists_each_once : forall r, pinv r -> NoDup (simplices r false).
Proof. exact simplices_nodup. Qed.
Print Assumptions C01_simplices_lists_each_once.

Theorem C01_listings_partition :
  forall r, pinv r -> simplices r false = concat (map (simplicesOfOrder r) (seq 0 (length (r_idx r)))).
Proof. exact simplices_by_order. Qed.
Print Assumptions C01_listings_partition.

Theorem C01_member_iff_listed :
  forall r s, pinv r -> (containsSimplex r s = true <-> exists k, In s (simplicesOfOrder r k)).
Proof. exact contains_iff_listed. Qed.
Print Assumptions C01_member_iff_listed.

(* newSimplex: the search terminates within its fuel and the name is not in the complex, whatever
   names (including look-alikes of generated names) the user chose *)
Theorem C01_auto_fresh :
  forall r d, exists i id, newSimplex r d = (set_seq r (S i), Ok id) /\ id = auto d i /\ r_seq r <= i /\
                           containsSimplex r id = false.
Proof. exact newSimplex_fresh. Qed.
Print Assumptions C01_auto_fresh.

(* non-vacuity: a history with a rejected call in the middle, names that look generated *)
Example C01_example :
  let r := fold_left rstep [OpAdd [] (Some (NStr "1d0")) None; OpAdd [] (Some (NInt 2)) None;
                            OpAdd [NStr "1d0"; NStr "zzz"] None None;
                            OpAdd [NStr "1d0"; NInt 2] None None; OpRelabel (NInt 2) (NTup [NInt 2]);
                            OpForceDelete (NStr "1d1")] (empty_rep 1) in
  simplices r false = [NStr "1d0"; NTup [NInt 2]; NStr "1d2"].
Proof. vm_compute. reflexivity. Qed.

(* BOUNDED (computed by the kernel): the full sentence of C01 -- k+1 distinct faces of order k-1,
   a basis of k+1 points, faces spanning the k-subsets of the basis, no shared basis, maxOrder the
   largest populated order, listings partitioning simplices() -- as the boolean wfb, for every
   complex on at most 4 labelled points, and again after every deletion / restriction / addition
   by basis / subdivision applied to it (wfb is part of each of these sweeps) *)
Theorem C01_wellformed_upto4_partial : forall c, In c complexes4 ->
  fam_eq (fam (build c)) (closure_of c) && wfb (build c) && viewsb (build c) = true.
Proof. exact built_complexes_upto4. Qed.
Print Assumptions C01_wellformed_upto4_partial.
Theorem C01_wellformed_after_mutation_upto4_partial : forall c, In c complexes4 ->
  chk_delete (build c) = true /\ chk_restrict (build c) = true /\ chk_addb (build c) = true /\ chk_subdiv (build c) = true.
Proof. intros c H. repeat split; [now apply delete_upto4 | now apply restrict_upto4 | now apply addb_upto4 | now apply subdiv_upto4]. Qed.
Print Assumptions C01_wellformed_after_mutation_upto4_partial.

(* every simplex ever added, on a complex of any history: the faces asked for are distinct, the
   new simplex has exactly them and the order |fs|-1, and nothing older changes *)
Theorem C01_added_simplex_has_exactly_its_faces :
  forall r fs id attr r' n, sinv r -> addSimplex r fs id attr = (r', Ok n) ->
  NoDup fs /\ orderOf r' n = Ok (length fs - 1) /\ (forall t, In t (faces r' n) <-> In t fs) /\
  (forall s, containsSimplex r s = true -> orderOf r' s = orderOf r s /\ faces r' s = faces r s /\ basisOf r' s = basisOf r s).
Proof.
  intros r fs id attr r' n Hinv H. destruct (addSimplex_effect r fs id attr r' n Hinv H) as (_ & Hnd & Ho & Hf & Hold & _).
  split; [exact Hnd|]. split; [exact Ho|]. split; [exact Hf|]. intros s Hs. destruct (Hold s Hs) as (A & _ & B & C). auto.
Qed.
Print Assumptions C01_added_simplex_has_exactly_its_faces.

(* EVERY HISTORY OF PUBLIC OPERATIONS (add by faces / by basis, ensureBasis, bulk add, delete, delete
   by basis, bulk delete, restrict, subdivide, relabel -- accepted or rejected, in any order): the
   closedness invariant cinv = shapes + "a simplex of order k >= 1 has exactly k+1 faces" holds *)
Theorem C01_public_histories_are_closed : forall uid ops, cinv (fold_left pstep ops (empty_rep uid)).
Proof. exact public_history_cinv. Qed.
Print Assumptions C01_public_histories_are_closed.
(* ... which says, in the words of the property: the faces of a simplex of order k are distinct,
   each is a simplex of the complex of order k-1, and there are exactly k+1 of them (none for a point) *)
Theorem C01_every_simplex_has_its_faces :
  forall r t k, cinv r -> orderOf r t = Ok k ->
  NoDup (faces r t) /\
  (forall u, In u (faces r t) -> containsSimplex r u = true /\ orderOf r u = Ok (k - 1)) /\
  length (faces r t) = (if Nat.eqb k 0 then 0 else S k).
Proof. exact faces_of_a_simplex. Qed.
Print Assumptions C01_every_simplex_has_its_faces.
(* the invariant survives deletion because deleteSimplex removes cofaces before faces *)
Theorem C01_delete_keeps_closed : forall r s r' x, cinv r -> deleteSimplex r s = (r', x) -> cinv r'.
Proof. exact deleteSimplex_cinv. Qed.
Print Assumptions C01_delete_keeps_closed.

(* THE VERTEX-SET READING, EVERY IN-CONTRACT HISTORY (add points, add by a duplicate-free basis of at
   least two names, delete a simplex / by basis / several, restrict, rename one simplex or many, in
   any order): the invariant vinv = closed + "basis = union of the faces' bases" + "a simplex of order
   k has exactly k+1 basis points" + "no two simplices have the same basis" holds at every point *)
Theorem C01_vertex_set_reading_at_every_point : forall uid ops, vinv (fold_left vstep ops (empty_rep uid)).
Proof. exact vertex_set_reading_at_every_point. Qed.
Print Assumptions C01_vertex_set_reading_at_every_point.
(* ... in the words of the property: a simplex of order k is a set of exactly k+1 distinct points of
   the complex, and a set of points names at most one simplex *)
Theorem C01_a_simplex_is_its_basis :
  forall r, vinv r ->
  (forall t k, orderOf r t = Ok k -> NoDup (basisOf r t) /\ length (basisOf r t) = S k /\
               forall p, In p (basisOf r t) -> orderOf r p = Ok 0) /\
  (forall t u, containsSimplex r t = true -> containsSimplex r u = true ->
               (forall p, In p (basisOf r t) <-> In p (basisOf r u)) -> t = u).
Proof. exact a_simplex_is_its_basis. Qed.
Print Assumptions C01_a_simplex_is_its_basis.
(* ... and the complex is closed under non-empty subsets: every non-empty set of points of a simplex
   carries a simplex of the complex *)
Theorem C01_closed_under_subsets :
  forall r, vinv r -> forall t B, containsSimplex r t = true ->
  NoDup B -> B <> nil -> incl B (basisOf r t) -> exists u, containsSimplex r u = true /\ sameset (basisOf r u) B.
Proof. exact closed_under_subsets. Qed.
Print Assumptions C01_closed_under_subsets.

(* EVERY HISTORY OF PUBLIC OPERATIONS: maxOrder() bounds every order, is -1 exactly when the complex holds
   nothing, and the order it names holds a simplex (the code steps the maximum down one order at a time) *)
Theorem C01_maxOrder_is_the_largest_populated_order :
  forall uid ops, let r := fold_left pstep ops (empty_rep uid) in
  (forall s k j, assoc s (r_simp r) = Some (k, j) -> Z.of_nat k <= maxOrder r)%Z /\
  ((maxOrder r = -1)%Z <-> forall s, containsSimplex r s = false) /\
  ((0 <= maxOrder r)%Z -> exists s j, assoc s (r_simp r) = Some (Z.to_nat (maxOrder r), j)).
Proof. exact maxOrder_is_largest_populated_order. Qed.
Print Assumptions C01_maxOrder_is_the_largest_populated_order.

(* compose: the composition of two complexes that meet the vertex-set reading meets it *)
Theorem C01_compose_keeps_the_vertex_set_reading :
  forall hp a c uid hp' d, vinv a -> vinv c -> Homology.compose hp a c None uid = (hp', d, Ok tt) -> vinv d.
Proof. intros hp a c uid hp' d Va Vc H. exact (proj1 (VIso2.compose_vinv hp a c uid hp' d Va Vc H)). Qed.
Print Assumptions C01_compose_keeps_the_vertex_set_reading.

(* bulk addition (addSimplicesFrom without a renaming, copy(target)): when a complex that meets the vertex-set reading
   is added to one that meets it and the call succeeds, the result meets it -- an accepted bulk add shares no name with
   the receiver, hence no point, hence no vertex set *)
Theorem C01_bulk_add_keeps_the_vertex_set_reading :
  (forall hp r src hp' r' st ns', vinv r -> vinv src ->
     addSimplicesFrom hp r (view_of src) RNone = (hp', r', st, Ok ns') -> vinv r') /\
  (forall hp src target hp' r', vinv target -> vinv src ->
     copy_into hp (view_of src) target = (hp', r', Ok tt) -> vinv r').
Proof. split; [exact BulkVinv.addSimplicesFrom_vinv|exact BulkVinv.copy_into_vinv]. Qed.
Print Assumptions C01_bulk_add_keeps_the_vertex_set_reading.

(* barycentric subdivision: when it succeeds on a complex that meets the vertex-set reading, the result meets it *)
Theorem C01_subdivide_keeps_the_vertex_set_reading :
  forall r s pts r' mid, vinv r -> barycentricSubdivide r s pts = (r', Ok mid) -> vinv r'.
Proof. exact SubdivVinv.barycentricSubdivide_vinv. Qed.
Print Assumptions C01_subdivide_keeps_the_vertex_set_reading.
