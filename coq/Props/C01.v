(* placeholder so that the pipeline can be exercised; replaced by the real theorems *)
From SV Require Import Names Rep.
Theorem C01_placeholder : True. Proof. exact I. Qed.
Print Assumptions C01_placeholder.
