(* C15 -- relabelling changes names and nothing else.  Theorem statements only; proofs in
   RelabelProofs.v.  Proved: one accepted rename carries every listing pointwise and leaves the
   boundary / basis matrices, hence order, position, faces, cofaces and basis (read from them),
   alone; the user's function is called at most once per simplex.  The sequential algorithm
   rejects forward chains: refuted by a witness (known finding).  Tested only: the multi-name
   relabel as a whole, relabelDisjointFrom, Betti invariance. *)
From Coq Require Import String ZArith Bool Arith List.
From SV Require Import Names NamesFacts ListFacts Rep Fresh Complex Atomic RepInv Reach RelabelProofs Homology RelabelAll RelabelPhi.
From SV Require ClosedReach AttrInv BulkRenamed Shapes DisjointRen CopyAttrs BulkRenamedAttrs.
Import ListNotations.

Theorem C15_one_rename_carries_structure_partial :
  forall r s q r', pinv r -> relabelSimplex r s q = (r', Ok tt) ->
  r_bnd r' = r_bnd r /\ r_bas r' = r_bas r /\ r_nord r' = r_nord r /\
  (forall k, idxk r' k = map (ren1 s q) (idxk r k)) /\
  (forall h, assoc s (r_attr r) = Some h -> assoc s (r_attr r) = Some h -> In (q, h) (r_attr r')).
Proof. exact relabelSimplex_carries. Qed.
Print Assumptions C15_one_rename_carries_structure_partial.

(* names read off an unchanged matrix column against a renamed listing are the renamed names *)
Theorem C15_names_follow_listing :
  forall (f : name -> name) names col, names_of_col (map f names) col = map f (names_of_col names col).
Proof. exact names_of_col_map. Qed.
Print Assumptions C15_names_follow_listing.

Theorem C15_called_once : forall r rn r' st x, relabel r rn = (r', st, x) -> NoDup (rl_calls st).
Proof. exact relabel_called_once. Qed.
Print Assumptions C15_called_once.

Theorem C15_forward_chain_refuted :
  snd (relabel two_points (RMap [(NStr "a", NStr "b"); (NStr "b", NStr "c")])) = Raise ValueError /\
  snd (relabel two_points (RMap [(NStr "b", NStr "c"); (NStr "a", NStr "x")])) =
    Ok [(NStr "a", NStr "x"); (NStr "b", NStr "c")].
Proof. exact forward_chain_refuted. Qed.
Print Assumptions C15_forward_chain_refuted.

(* a whole relabel() -- completed, rejected by the pre-check, or stopped at a rejected single rename
   -- leaves the matrices and the number of orders untouched and renames every listing pointwise
   by one function phi ... *)
Theorem C15_relabel_changes_names_only :
  forall r rn r' st x, pinv r -> relabel r rn = (r', st, x) -> exists phi, renamed_by phi r r'.
Proof. exact relabel_renames. Qed.
Print Assumptions C15_relabel_changes_names_only.
(* ... along which order, listing position, faces, cofaces and basis of every simplex are carried *)
Theorem C15_structure_carried :
  forall phi r r', pinv r -> pinv r' -> renamed_by phi r r' ->
  forall s k i, assoc s (r_simp r) = Some (k, i) ->
  assoc (phi s) (r_simp r') = Some (k, i) /\
  faces r' (phi s) = map phi (faces r s) /\ cofaces r' (phi s) = map phi (cofaces r s) /\
  basisOf r' (phi s) = map phi (basisOf r s).
Proof. exact renamed_structure. Qed.
Print Assumptions C15_structure_carried.
(* ... and boundary operators, Smith normal forms, Betti numbers, Euler characteristic and the
   per-order counts are unchanged *)
Theorem C15_betti_unchanged :
  forall phi r r', renamed_by phi r r' ->
  (forall k, boundaryOperator r' k = boundaryOperator r k) /\
  (forall k, smithNormalForm r' k = smithNormalForm r k) /\
  (forall ks, bettiNumbers r' ks = bettiNumbers r ks) /\
  eulerCharacteristic r' = eulerCharacteristic r /\
  numberOfSimplicesOfOrder r' = numberOfSimplicesOfOrder r.
Proof. exact renamed_homology. Qed.
Print Assumptions C15_betti_unchanged.

(* a COMPLETED relabel() renames by the user's renaming and reports it: every listing is renamed pointwise by
   phi = "the name the renaming gave this simplex (remembered from its one call), itself otherwise", matrices
   and the number of orders are untouched, the returned mapping lists -- in listing order -- exactly the
   simplices whose name changed, and for a dict renaming m the remembered name of s is m.get(s, s) *)
Theorem C15_relabel_renames_by_the_users_renaming :
  forall r rn r' st mapping, pinv r -> rn <> RNone -> relabel r rn = (r', st, Ok mapping) ->
  renamed_by (memo_of st) r r' /\
  mapping = changed st (simplices r false) /\
  (forall s, In s (simplices r false) -> exists t, assoc s (rl_memo st) = Some t).
Proof. exact relabel_phi. Qed.
Print Assumptions C15_relabel_renames_by_the_users_renaming.
Theorem C15_dict_renaming_is_get_with_default :
  forall r m r' st mapping, pinv r -> relabel r (RMap m) = (r', st, Ok mapping) ->
  forall s, In s (simplices r false) -> memo_of st s = um m s.
Proof. exact relabel_phi_dict. Qed.
Print Assumptions C15_dict_renaming_is_get_with_default.

(* ATTRIBUTES.  After every history of public operations every simplex has exactly one attribute
   dictionary and nothing else has one (AttrInv.ainv) ... *)
Theorem C15_attribute_table_invariant :
  forall uid ops, AttrInv.ainv (fold_left ClosedReach.pstep ops (empty_rep uid)).
Proof. exact AttrInv.public_history_ainv. Qed.
Print Assumptions C15_attribute_table_invariant.
(* ... and a completed relabel() hands the dictionary of s -- the same object, relabel never touches the
   heap of dictionaries -- to phi(s), phi being the renaming of C15_relabel_renames_by_the_users_renaming;
   the invariant is kept, so nothing else acquires a dictionary *)
Theorem C15_attributes_follow_the_names :
  forall r rn r' st mapping, AttrInv.ainv r -> rn <> RNone -> relabel r rn = (r', st, Ok mapping) ->
  AttrInv.ainv r' /\
  forall s, containsSimplex r s = true -> assoc (memo_of st s) (r_attr r') = assoc s (r_attr r).
Proof. exact AttrInv.relabel_attrs_follow. Qed.
Print Assumptions C15_attributes_follow_the_names.

(* BULK ADD UNDER A RENAMING (a dict or a function, asked once per simplex and remembered): an accepted
   addSimplicesFrom inserts a copy of the source along phi = "the name the renaming gave s, s itself if it was never
   asked" (the final memo): every source simplex s arrives as phi(s) with its order and with faces phi(faces of s); the
   receiver's own simplices keep name, order, position, faces and points; membership is old + phi(source); the list
   returned is phi of the source's listing.  (Ownership of the new dictionaries: C09_bulk_add_keeps_ownership.) *)
Theorem C15_bulk_add_under_a_renaming :
  forall rn, rn <> RNone -> forall (src : srcview) hp r st ns hp' r' st' ns',
  Shapes.sinv r -> addFrom_loop hp r rn st src ns = (hp', r', st', Ok ns') ->
  let phi := memo_of st' in
  Shapes.sinv r' /\ BulkRenamed.grows st st' /\
  (forall s fs h, In (s, (fs, h)) src ->
     containsSimplex r' (phi s) = true /\ orderOf r' (phi s) = Ok (length fs - 1) /\
     (forall t, In t (faces r' (phi s)) <-> In t (map phi fs))) /\
  (forall s, containsSimplex r s = true ->
     containsSimplex r' s = true /\ orderOf r' s = orderOf r s /\ indexOf r' s = indexOf r s /\
     faces r' s = faces r s /\ basisOf r' s = basisOf r s) /\
  (forall s, containsSimplex r' s = containsSimplex r s || memn s (map phi (map fst src))) /\
  ns' = ns ++ map phi (map fst src).
Proof. exact BulkRenamed.bulk_add_renamed. Qed.
Print Assumptions C15_bulk_add_under_a_renaming.

(* relabelDisjointFrom(c): a completed call leaves no name shared with c, renames only simplices whose names c also
   uses (to names c does not use), and keeps every other simplex under its name.  (On the pinned tree this was false: the
   new name was only checked against the receiver, so a name of c that looks like a decorated name -- 'a->0d1' -- stayed
   shared; found while proving this theorem, fixed in /repo, DESIGN 6.) *)
Theorem C15_relabelDisjointFrom_leaves_no_shared_name :
  forall r c r' st mapping, pinv r -> pinv c -> relabelDisjointFrom r c = (r', st, Ok mapping) ->
  (forall s, containsSimplex r' s = true -> containsSimplex c s = false) /\
  (forall s t, In (s, t) mapping -> containsSimplex r s = true /\ containsSimplex c s = true /\ containsSimplex c t = false) /\
  (forall s, containsSimplex r s = true -> containsSimplex c s = false -> containsSimplex r' s = true).
Proof. exact DisjointRen.relabelDisjointFrom_spec. Qed.
Print Assumptions C15_relabelDisjointFrom_leaves_no_shared_name.

(* ... and it preserves the attributes: every source simplex s arrives as phi(s) with a dictionary of the receiver's own
   (a new cell) that holds what the source's dictionary holds; the receiver's earlier dictionaries keep their contents; no
   dictionary of another owner is written.  (CopyAttrs.ainv uid r: the receiver owns its dictionaries, allocated in
   increasing order -- every complex whose dictionaries the library allocated.) *)
Theorem C15_bulk_add_under_a_renaming_preserves_attributes :
  forall rn uid, rn <> RNone -> forall (src : srcview) hp r st ns hp' r' st' ns',
  CopyAttrs.ainv uid r -> (forall s fs h, In (s, (fs, h)) src -> fst h <> uid) ->
  addFrom_loop hp r rn st src ns = (hp', r', st', Ok ns') ->
  let phi := memo_of st' in
  CopyAttrs.ainv uid r' /\
  (forall s fs h, In (s, (fs, h)) src ->
     exists h', assoc (phi s) (r_attr r') = Some h' /\ fst h' = uid /\ heap_get hp' h' = heap_get hp h) /\
  (forall s h', assoc s (r_attr r) = Some h' -> assoc s (r_attr r') = Some h' /\ heap_get hp' h' = heap_get hp h') /\
  (forall h0, fst h0 <> uid -> heap_get hp' h0 = heap_get hp h0).
Proof. exact BulkRenamedAttrs.bulk_add_renamed_attrs. Qed.
Print Assumptions C15_bulk_add_under_a_renaming_preserves_attributes.
