(* C14 -- at index i a filtration answers as the complex at i; stepping.
   Theorem statements only; proofs in FiltProofs.v.  The faithful model *violates* the statement
   for maxOrder, simplicesOfOrder and bettiNumbers (they ignore the index): refuted by a witness
   that replays on /repo (known findings).  The index-aware queries are compared with the snapshot
   by the oracle (tested_only). *)
From Coq Require Import String ZArith Bool Arith List.
From SV Require Import Names NamesFacts ListFacts Rep Fresh Complex Atomic RepInv Homology Filtration FiltProofs Shapes SnapProofs.
From SV Require Closed ClosedReach Listing VInv VIso FiltClosed FiltBook FiltCount SnapCounts.
Import ListNotations.

Theorem C14_maxOrder_refuted : maxOrder (f_rep witness) <> maxOrder (snap_rep witness).
Proof. exact maxOrder_ignores_index_refuted. Qed.
Print Assumptions C14_maxOrder_refuted.
Theorem C14_simplicesOfOrder_refuted : simplicesOfOrder (f_rep witness) 1 <> simplicesOfOrder (snap_rep witness) 1.
Proof. exact simplicesOfOrder_ignores_index_refuted. Qed.
Print Assumptions C14_simplicesOfOrder_refuted.
Theorem C14_bettiNumbers_refuted :
  bettiNumbers (f_rep witness) (Some [0]) <> bettiNumbers (snap_rep witness) (Some [0]).
Proof. exact bettiNumbers_ignores_index_refuted. Qed.
Print Assumptions C14_bettiNumbers_refuted.

(* membership at index i is membership among the simplices born at or before i, monotone in i *)
Theorem C14_membership_monotone :
  forall f i j s, (i <= j)%Z -> f_contains (at_index f i) s = true -> f_contains (at_index f j) s = true.
Proof. exact contains_monotone. Qed.
Print Assumptions C14_membership_monotone.

(* setNextIndex / setPreviousIndex move to the adjacent index of the sorted index list and do
   nothing at the ends *)
Theorem C14_next : forall f i, index_in (f_index f) (f_indices f) 0 = Some i ->
  S i < length (f_indices f) -> snd (f_setNext f) = Ok (nth (S i) (f_indices f) 0%Z).
Proof. exact next_moves_to_adjacent. Qed.
Print Assumptions C14_next.
Theorem C14_next_at_end : forall f i, index_in (f_index f) (f_indices f) 0 = Some i ->
  S i = length (f_indices f) -> f_setNext f = (f, Ok (f_index f)).
Proof. exact next_stays_at_the_end. Qed.
Print Assumptions C14_next_at_end.
Theorem C14_prev : forall f i, index_in (f_index f) (f_indices f) 0 = Some (S i) ->
  snd (f_setPrev f) = Ok (nth i (f_indices f) 0%Z).
Proof. exact prev_moves_to_adjacent. Qed.
Print Assumptions C14_prev.
Theorem C14_prev_at_start : forall f, index_in (f_index f) (f_indices f) 0 = Some 0 -> f_setPrev f = (f, Ok (f_index f)).
Proof. exact prev_stays_at_the_start. Qed.
Print Assumptions C14_prev_at_start.

(* the snapshot taken at the current index (snap(): a copy of what is visible) answers membership,
   order and faces as the filtration does at that index *)
Theorem C14_snapshot_membership_and_faces :
  forall hp f uid hp' c, pinv (f_rep f) -> copy_new hp (f_view f) uid = (hp', c, Ok tt) ->
  sinv c /\
  (forall s, containsSimplex c s = f_contains f s) /\
  (forall s, f_contains f s = true ->
     orderOf c s = Ok (length (faces (f_rep f) s) - 1) /\ forall t, In t (faces c s) <-> In t (faces (f_rep f) s)).
Proof. exact snap_answers_as_filtration. Qed.
Print Assumptions C14_snapshot_membership_and_faces.
Theorem C14_snapshot_orders :
  forall hp f uid hp' c, Closed.cinv (f_rep f) -> copy_new hp (f_view f) uid = (hp', c, Ok tt) ->
  forall s, f_contains f s = true -> orderOf c s = orderOf (f_rep f) s.
Proof. exact snap_orders_agree. Qed.
Print Assumptions C14_snapshot_orders.

(* LISTINGS AND EULER CHARACTERISTIC, every filtration whose complex is closed (every filtration history:
   C13_filtration_histories_are_closed): the snapshot taken at the current index lists -- per order, and as a
   whole, in the same sequence -- exactly what the filtration's index-aware simplices() lists, and
   the filtration's eulerCharacteristic() is the snapshot's *)
Theorem C14_snapshot_lists_per_order :
  forall hp f uid hp' c, Closed.cinv (f_rep f) -> copy_new hp (f_view f) uid = (hp', c, Ok tt) ->
  forall j, simplicesOfOrder c j = filter (f_contains f) (simplicesOfOrder (f_rep f) j).
Proof. exact Listing.snap_listing_per_order. Qed.
Print Assumptions C14_snapshot_lists_per_order.
Theorem C14_snapshot_lists_what_the_filtration_lists :
  forall hp f uid hp' c, Closed.cinv (f_rep f) -> copy_new hp (f_view f) uid = (hp', c, Ok tt) ->
  simplices c false = f_simplices f false.
Proof. exact Listing.snap_listing. Qed.
Print Assumptions C14_snapshot_lists_what_the_filtration_lists.
Theorem C14_snapshot_euler_characteristic :
  forall hp f uid hp' c, Closed.cinv (f_rep f) -> copy_new hp (f_view f) uid = (hp', c, Ok tt) ->
  eulerCharacteristic c = f_eulerCharacteristic f.
Proof. exact Listing.snap_euler. Qed.
Print Assumptions C14_snapshot_euler_characteristic.

(* the snapshot of a filtration whose complex meets the vertex-set reading meets it, with the points the
   simplices have in the filtration: closure, star, lookups, Euler integral (C04, C19) apply to it *)
Theorem C14_snapshot_meets_the_vertex_set_reading :
  forall hp f uid hp' c, VInv.vinv (f_rep f) -> copy_new hp (f_view f) uid = (hp', c, Ok tt) ->
  VInv.vinv c /\ forall s, containsSimplex c s = true -> VInv.sameset (basisOf c s) (basisOf (f_rep f) s).
Proof. exact VIso.snap_vinv. Qed.
Print Assumptions C14_snapshot_meets_the_vertex_set_reading.

(* THE TOTAL COUNT.  numberOfSimplices() of a filtration walks indices() and adds up the sizes of the
   per-index tables up to the current index; for every filtration that satisfies the two invariants
   kept by every filtration history (C13_history_invariant, C13_bookkeeping_invariant) that is the
   number of simplices the filtration lists at its index, and what the snapshot counts *)
Theorem C14_numberOfSimplices_counts_the_view :
  forall f, FiltClosed.minv f -> FiltBook.binv f -> f_numberOfSimplices f = length (f_simplices f false).
Proof. exact FiltCount.numberOfSimplices_counts_the_view. Qed.
Print Assumptions C14_numberOfSimplices_counts_the_view.
Theorem C14_snapshot_counts_what_the_filtration_counts :
  forall hp f uid hp' c, FiltClosed.minv f -> FiltBook.binv f -> Closed.cinv (f_rep f) ->
  copy_new hp (f_view f) uid = (hp', c, Ok tt) -> numberOfSimplices c = f_numberOfSimplices f.
Proof. exact FiltCount.snapshot_counts_what_the_filtration_counts. Qed.
Print Assumptions C14_snapshot_counts_what_the_filtration_counts.

(* THE PER-ORDER COUNTS, as lists: what the filtration reports at its index (trailing zeros dropped) is the list the
   snapshot reports (its top order is populated, so it has no trailing zero) *)
Theorem C14_snapshot_counts_per_order :
  forall hp f uid hp' c, Closed.cinv (f_rep f) -> copy_new hp (f_view f) uid = (hp', c, Ok tt) ->
  numberOfSimplicesOfOrder c = f_numberOfSimplicesOfOrder f.
Proof. exact SnapCounts.snap_counts_per_order. Qed.
Print Assumptions C14_snapshot_counts_per_order.
