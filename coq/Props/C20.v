(* C20 -- an embedding returns assigned positions and behaves as a dict over the points.
   Theorem statements only; proofs in EmbProofs.v / Floats.v. *)
From Coq Require Import String ZArith Bool Arith List.
From SV Require Import Names NamesFacts Rep Complex Homology Filtration Gen World EmbProofs Floats.
Import ListNotations.

Theorem C20_assign_read :
  forall e s p e', emb_positionSimplex e s p = Ok e' -> emb_read (Ok 0%nat) e' s = (e', Ok p).
Proof. exact assign_then_read. Qed.
Print Assumptions C20_assign_read.

(* an assigned position takes precedence over the computed one and is what every later read
   returns, after any sequence of reads of any simplices *)
Theorem C20_precedence :
  forall e s p e' ord ss, emb_positionSimplex e s p = Ok e' -> ord s = Ok 0 ->
  emb_read (ord s) (reads ord e' ss) s = (reads ord e' ss, Ok p).
Proof. exact precedence. Qed.
Print Assumptions C20_precedence.

Theorem C20_cleared : forall e s, assoc s (e_pos (emb_clear e)) = None.
Proof. exact clear_forgets. Qed.
Print Assumptions C20_cleared.

Theorem C20_computed_once :
  forall e s,
  let '(e1, p1) := emb_read (Ok 0%nat) e s in
  let '(e2, p2) := emb_read (Ok 0%nat) e1 s in
  p2 = p1 /\ e2 = e1 /\ (assoc s (e_pos e) = None -> e_calls e1 = e_calls e ++ [s]) /\
  (assoc s (e_pos e) <> None -> e_calls e1 = e_calls e).
Proof. exact computed_once. Qed.
Print Assumptions C20_computed_once.

Theorem C20_wrong_dimension :
  forall e s p, length p <> e_dim e -> emb_positionSimplex e s p = Raise ValueError.
Proof. exact positionSimplex_wrong_dim. Qed.
Print Assumptions C20_wrong_dimension.

Theorem C20_higher_order : forall e s k, emb_read (Ok (S k)) e s = (e, Raise ValueError).
Proof. exact read_higher_order. Qed.
Print Assumptions C20_higher_order.

(* lattice embeddings up to 6 x 6 in the boxes 1x1, 2x3, 0.5x4, 3.25x1.5: distinct lattice points
   at distinct positions inside the box (binary64 arithmetic evaluated by the kernel) *)
Theorem C20_lattice_range :
  forallb (fun rc => forallb (fun hw => lattice_ok (fst rc) (snd rc) (fst hw) (snd hw)) boxes) sizes = true.
Proof. exact lattice_range_ok. Qed.
Print Assumptions C20_lattice_range.
