(* C05 -- a rejected request raises KeyError/ValueError and changes nothing.
   Theorem statements only; proofs in Fresh.v / Atomic.v. *)
From Coq Require Import String ZArith Bool Arith List.
From SV Require Import Names NamesFacts Rep Fresh Complex Atomic Continuation.
Import ListNotations.

(* addSimplex (by faces / a point): whatever the faces, name and attributes, a rejection leaves
   every observable field of the representation as it was (the private auto-name counter and the
   dict allocator may have advanced) and the exception is KeyError or ValueError -- in particular
   never the model's OutOfFuel, i.e. the name search always terminates *)
Theorem C05_addSimplex_atomic :
  forall r fs id attr r' e, addSimplex r fs id attr = (r', Raise e) -> same_obs r r' /\ kv e.
Proof. exact addSimplex_atomic. Qed.
Print Assumptions C05_addSimplex_atomic.

(* same observable fields => every read-only query answers the same *)
Theorem C05_same_obs_same_answers :
  forall r r', same_obs r r' ->
  (forall s, orderOf r' s = orderOf r s) /\ (forall s, indexOf r' s = indexOf r s) /\
  (forall s, faces r' s = faces r s) /\ (forall s, cofaces r' s = cofaces r s) /\
  (forall s, basisOf r' s = basisOf r s) /\ (forall s, containsSimplex r' s = containsSimplex r s) /\
  (forall k, simplicesOfOrder r' k = simplicesOfOrder r k) /\ (forall b, simplices r' b = simplices r b) /\
  (forall k, boundaryOperator r' k = boundaryOperator r k) /\ maxOrder r' = maxOrder r /\
  (forall s, getAttributes r' s = getAttributes r s).
Proof. exact same_obs_queries. Qed.
Print Assumptions C05_same_obs_same_answers.

Theorem C05_relabelSimplex_atomic :
  forall r s q r' e, relabelSimplex r s q = (r', Raise e) -> r' = r /\ kv e.
Proof. exact relabelSimplex_atomic. Qed.
Print Assumptions C05_relabelSimplex_atomic.

Theorem C05_forceDelete_atomic :
  forall r s r' e, forceDeleteSimplex r s = (r', Raise e) -> r' = r /\ e = KeyError.
Proof. exact forceDeleteSimplex_atomic. Qed.
Print Assumptions C05_forceDelete_atomic.

(* the algorithms of base.py: unknown simplex / non-point in a basis / duplicate name / overlapping
   copy target / colliding renaming are detected before anything is written *)
Theorem C05_delete_unknown :
  forall r s, containsSimplex r s = false -> deleteSimplex r s = (r, Raise KeyError).
Proof. exact deleteSimplex_unknown. Qed.
Print Assumptions C05_delete_unknown.

Theorem C05_restrict_not_a_basis :
  forall r bs e, c_isBasis r bs true = Raise e -> restrictBasisTo r bs = (r, Raise e) /\ kv e.
Proof. exact restrictBasisTo_not_a_basis. Qed.
Print Assumptions C05_restrict_not_a_basis.

Theorem C05_subdivide_unknown :
  forall r s pts, containsSimplex r s = false -> barycentricSubdivide r s pts = (r, Raise KeyError).
Proof. exact barycentricSubdivide_unknown. Qed.
Print Assumptions C05_subdivide_unknown.

Theorem C05_subdivide_point :
  forall r s i pts, assoc s (r_simp r) = Some (0, i) -> barycentricSubdivide r s pts = (r, Raise ValueError).
Proof. exact barycentricSubdivide_point. Qed.
Print Assumptions C05_subdivide_point.

Theorem C05_ensureBasis_non_point :
  forall r bs attr e, ensure_check rep containsSimplex orderOf r bs = Raise e -> c_ensureBasis r bs attr = (r, Raise e).
Proof. exact ensureBasis_non_point. Qed.
Print Assumptions C05_ensureBasis_non_point.

Theorem C05_addSimplexWithBasis_duplicate_name :
  forall r bs n attr, bs <> [] -> containsSimplex r n = true ->
  c_addSimplexWithBasis r bs (Some n) attr = (r, Raise KeyError).
Proof. exact addSimplexWithBasis_duplicate_name. Qed.
Print Assumptions C05_addSimplexWithBasis_duplicate_name.

Theorem C05_copy_into_overlap :
  forall hp src target, length (intern (map fst src) (simplices target false)) <> 0 ->
  copy_into hp src target = (hp, target, Raise ValueError).
Proof. exact copy_into_overlap. Qed.
Print Assumptions C05_copy_into_overlap.

Theorem C05_relabel_rejected_by_check :
  forall r rn st e, relabel_check rn rl0 (simplices r false) (simplices r false) = (st, Raise e) ->
  relabel r rn = (r, st, Raise e).
Proof. exact relabel_rejected_by_check. Qed.
Print Assumptions C05_relabel_rejected_by_check.

(* non-vacuity: a triangle with a dangling edge; a duplicate edge below the top order is rejected
   and every field is unchanged *)
Definition tri : rep :=
  fst (c_addSimplexWithBasis (fst (c_addSimplexWithBasis (empty_rep 1) [NInt 1; NInt 2; NInt 3] (Some (NInt 9)) None))
                             [NInt 3; NInt 4] None None).
Example C05_example_duplicate_edge :
  exists r', addSimplex tri [NInt 1; NInt 2] (Some (NInt 77)) (Some (0, 0)) = (r', Raise KeyError) /\ r' = tri.
Proof. eexists. split; vm_compute; reflexivity. Qed.

(* CONTINUATION: a rejected request leaves an observably equal complex (the theorems above), and the
   primitive mutators are functions of the observable fields -- on observably equal complexes a
   rename, a removal, and an add that names its simplex and brings its attributes give the same
   outcome and observably equal results: later requests behave as if the rejected one had never
   been made.  (A generated name or a fresh attribute dictionary depends on counters that a
   rejected call may have advanced: the statement does not cover them, see DESIGN.md 5(b).) *)
Theorem C05_continuation_after_a_rejected_request :
  forall r1 r2, same_obs r1 r2 ->
  (forall s q, snd (relabelSimplex r1 s q) = snd (relabelSimplex r2 s q) /\
               same_obs (fst (relabelSimplex r1 s q)) (fst (relabelSimplex r2 s q))) /\
  (forall s, snd (forceDeleteSimplex r1 s) = snd (forceDeleteSimplex r2 s) /\
             same_obs (fst (forceDeleteSimplex r1 s)) (fst (forceDeleteSimplex r2 s))) /\
  (forall fs n h, snd (addSimplex r1 fs (Some n) (Some h)) = snd (addSimplex r2 fs (Some n) (Some h)) /\
                  same_obs (fst (addSimplex r1 fs (Some n) (Some h))) (fst (addSimplex r2 fs (Some n) (Some h)))).
Proof.
  intros r1 r2 Hs. split; [|split].
  - intros s q. now apply relabelSimplex_respects.
  - intros s. now apply forceDeleteSimplex_respects.
  - intros fs n h. now apply addSimplex_respects.
Qed.
Print Assumptions C05_continuation_after_a_rejected_request.

(* a basis that already defines a simplex: addSimplexWithBasis raises KeyError and changes nothing observable (only the
   allocation counter of attribute dictionaries may have moved) *)
From SV Require AtomicAwb.
Theorem C05_addSimplexWithBasis_existing_basis :
  forall r bs id attr s, bs <> [] -> c_simplexWithBasis r bs false = Ok (Some s) ->
  exists r', c_addSimplexWithBasis r bs id attr = (r', Raise KeyError) /\ same_obs r r'.
Proof. exact AtomicAwb.addSimplexWithBasis_existing_basis. Qed.
Print Assumptions C05_addSimplexWithBasis_existing_basis.
