(* C09 -- copies and derived complexes share no mutable state with their sources.
   Theorem statements only; proofs in WorldProofs.v.  Proved: copy() / snap() (copy_new) and JSON
   decoding produce a complex all of whose attribute dictionaries were allocated by itself, under
   a fresh owner, leaving every older heap cell untouched; two complexes with different owners
   share no dictionary; likewise compose / flagComplex / vietorisRipsComplex / deepcopy /
   Filtration.copy; contents of copy().  Tested only: attribute contents of Filtration.copy,
   follow-up mutation scripts. *)
From Coq Require Import String ZArith Bool Arith List.
From SV Require Import Names NamesFacts ListFacts Rep Fresh Complex Atomic RepInv Reach Homology Filtration Gen World WorldProofs Shapes CopyFaithful CopyAttrs.
From SV Require Import VInv CopyOk.

From SV Require Closed Listing VInv VIso CpsGen ComposeFresh.
From SV Require Import DeepcopyFrame DeepcopyContents FiltCopyFrame CtorFrame WorldOwn.

Theorem C09_copy_is_fresh :
  forall hp src uid hp' r' x, copy_new hp src uid = (hp', r', x) ->
  owned r' /\ r_uid r' = uid /\ forall h, fst h <> uid -> heap_get hp' h = heap_get hp h.
Proof. exact copy_new_fresh. Qed.
Print Assumptions C09_copy_is_fresh.

Theorem C09_decode_is_fresh :
  forall js hp r hp' r' x, owned r -> decode hp r js = (hp', r', x) ->
  owned r' /\ r_uid r' = r_uid r /\ forall h, fst h <> r_uid r -> heap_get hp' h = heap_get hp h.
Proof. exact decode_owned. Qed.
Print Assumptions C09_decode_is_fresh.

Theorem C09_different_owners_share_nothing :
  forall r1 r2 s1 s2 h, owned r1 -> owned r2 -> r_uid r1 <> r_uid r2 ->
  In (s1, h) (r_attr r1) -> In (s2, h) (r_attr r2) -> False.
Proof. exact owned_disjoint. Qed.
Print Assumptions C09_different_owners_share_nothing.

(* bulk adds (addSimplicesFrom, the engine of copy / snap / compose) keep a complex the owner of
   all its dictionaries and copy the attribute contents into cells of that owner only *)
Theorem C09_bulk_add_keeps_ownership :
  forall rn src hp r st ns hp' r' st' x, owned r -> addFrom_loop hp r rn st src ns = (hp', r', st', x) ->
  owned r' /\ r_uid r' = r_uid r /\ forall h, fst h <> r_uid r -> heap_get hp' h = heap_get hp h.
Proof. exact addFrom_loop_owned. Qed.
Print Assumptions C09_bulk_add_keeps_ownership.

(* copy(): the new complex has exactly the simplices of the source, each with its order and
   exactly its faces (and satisfies the shape invariant) *)
Theorem C09_copy_faithful :
  forall hp src uid hp' r',
  copy_new hp (view_of src) uid = (hp', r', Ok tt) ->
  sinv r' /\
  (forall s, containsSimplex r' s = memn s (simplices src false)) /\
  (forall s, In s (simplices src false) ->
     orderOf r' s = Ok (length (faces src s) - 1) /\ forall t, In t (faces r' s) <-> In t (faces src s)).
Proof. exact copy_faithful. Qed.
Print Assumptions C09_copy_faithful.

(* ... and every simplex of the copy has an attribute dictionary owned by the copy whose contents
   are those of the source's dictionary; no dictionary of another owner is written (uid: the fresh
   owner id of the copy; 0 is the owner of the never-written empty dictionary) *)
Theorem C09_copy_attribute_values :
  forall hp src uid hp' r',
  (forall s h, assoc s (r_attr src) = Some h -> fst h <> uid) -> uid <> 0 ->
  copy_new hp (view_of src) uid = (hp', r', Ok tt) ->
  (forall s, In s (simplices src false) ->
     exists h', assoc s (r_attr r') = Some h' /\ fst h' = uid /\
       heap_get hp' h' = heap_get hp (match assoc s (r_attr src) with Some h => h | None => (0, 0) end)) /\
  (forall h0, fst h0 <> uid -> heap_get hp' h0 = heap_get hp h0).
Proof. exact copy_attrs. Qed.
Print Assumptions C09_copy_attribute_values.

(* the copy of a closed complex (every complex of every history of public operations: C01) lists, per
   order, exactly what the source lists, in the same sequence -- so indices are the same too *)
Theorem C09_copy_lists_in_the_same_order :
  forall hp src uid hp' c, Closed.cinv src -> copy_new hp (view_of src) uid = (hp', c, Ok tt) ->
  forall j, simplicesOfOrder c j = simplicesOfOrder src j.
Proof. exact Listing.copy_listing_per_order. Qed.
Print Assumptions C09_copy_lists_in_the_same_order.

(* the copy of a complex that meets the vertex-set reading (C01) meets it, and every simplex of the copy
   has the points it has in the source *)
Theorem C09_copy_keeps_the_vertex_set_reading :
  forall hp src uid hp' c, VInv.vinv src -> copy_new hp (view_of src) uid = (hp', c, Ok tt) ->
  VInv.vinv c /\ forall s, containsSimplex c s = true -> VInv.sameset (basisOf c s) (basisOf src s).
Proof. exact VIso.copy_vinv. Qed.
Print Assumptions C09_copy_keeps_the_vertex_set_reading.

(* copy() of a complex that meets the vertex-set reading never fails *)
Theorem C09_copy_never_fails :
  forall src, vinv src -> forall hp uid, exists hp' c, copy_new hp (view_of src) uid = (hp', c, Ok tt).
Proof. exact copy_new_succeeds. Qed.
Print Assumptions C09_copy_never_fails.

(* flagComplex() -- a copy, then the sweep, which adds simplices without attributes -- returns a complex that owns
   every one of its dictionaries and writes no dictionary of anybody else, whatever its outcome; the result of
   vietorisRipsComplex() is flagComplex() of a private complex, so the same holds for it; growFlagComplex keeps a
   complex the owner of its dictionaries.  With C09_different_owners_share_nothing: the result shares no
   dictionary with its source or with any other complex. *)
Theorem C09_flag_complex_is_fresh :
  forall hp src uid hp' r' x, Homology.flagComplex hp src uid = (hp', r', x) ->
  owned r' /\ r_uid r' = uid /\ forall h, fst h <> uid -> heap_get hp' h = heap_get hp h.
Proof. exact CpsGen.flagComplex_fresh. Qed.
Print Assumptions C09_flag_complex_is_fresh.
Theorem C09_vietoris_rips_complex_is_fresh :
  forall hp uid0 u r close vr hp' r' x, vr_build uid0 r close = (vr, Ok tt) ->
  Homology.flagComplex hp vr u = (hp', r', x) ->
  owned r' /\ r_uid r' = u /\ forall h, fst h <> u -> heap_get hp' h = heap_get hp h.
Proof. intros hp uid0 u r close vr hp' r' x _. apply CpsGen.flagComplex_fresh. Qed.
Print Assumptions C09_vietoris_rips_complex_is_fresh.
Theorem C09_grow_keeps_ownership :
  forall r news r' x, owned r -> Homology.growFlagComplex r news = (r', x) -> owned r' /\ r_uid r' = r_uid r.
Proof. exact CpsGen.growFlagComplex_owned. Qed.
Print Assumptions C09_grow_keeps_ownership.

(* compose(): the result -- new, or the caller's target if that owns its dictionaries -- owns every one of its
   dictionaries (merged and handed-over ones are new cells of that owner) and no cell of another owner is written,
   whatever the outcome *)
Theorem C09_compose_is_fresh :
  (forall hp a c uid hp' d x, Homology.compose hp a c None uid = (hp', d, x) ->
     owned d /\ r_uid d = uid /\ forall h, fst h <> uid -> heap_get hp' h = heap_get hp h) /\
  (forall hp a c t uid hp' d x, owned t -> Homology.compose hp a c (Some t) uid = (hp', d, x) ->
     owned d /\ r_uid d = r_uid t /\ forall h, fst h <> r_uid t -> heap_get hp' h = heap_get hp h).
Proof. split; [exact ComposeFresh.compose_fresh|exact ComposeFresh.compose_into_fresh]. Qed.
Print Assumptions C09_compose_is_fresh.

(* Filtration.copy(): when it succeeds, the copy has exactly the simplices of the source, each with its faces and with
   the birth index it has in the source (for every source filtration that satisfies the two filtration invariants --
   every filtration history, C13) *)
From SV Require FiltClosed FiltBook FiltCopyContents.
Theorem C09_filtration_copy_contents :
  forall f uid, FiltClosed.minv f -> FiltBook.binv f -> forall hp orders hp' c,
  f_copy hp f uid orders = (hp', c, Ok tt) ->
  (forall s, containsSimplex (f_rep c) s = containsSimplex (f_rep f) s) /\
  (forall s, containsSimplex (f_rep f) s = true ->
     f_addedAtIndex c s = f_addedAtIndex f s /\ forall t, In t (faces (f_rep c) s) <-> In t (faces (f_rep f) s)).
Proof. exact FiltCopyContents.f_copy_contents. Qed.
Print Assumptions C09_filtration_copy_contents.

(* copy.deepcopy: the result owns every one of its dictionaries under the new uid, so (by
   C09_different_owners_share_nothing) it shares none with its source; nothing older is written *)
Theorem C09_deepcopy_is_fresh :
  forall hp r uid hp' r', deepcopy_rep hp r uid = (hp', r') ->
  owned r' /\ r_uid r' = uid /\ forall h, fst h <> uid -> heap_get hp' h = heap_get hp h.
Proof.
  intros hp r uid hp' r' H. destruct (deepcopy_owned _ _ _ _ _ H) as [O U].
  split; [exact O|]. split; [exact U|]. exact (deepcopy_writes_only_new_cells _ _ _ _ _ H).
Qed.
Print Assumptions C09_deepcopy_is_fresh.

(* Filtration.copy(): likewise, whatever its outcome *)
Theorem C09_filtration_copy_is_fresh :
  forall hp f uid orders hp' c x, f_copy hp f uid orders = (hp', c, x) ->
  owned (f_rep c) /\ r_uid (f_rep c) = uid /\ forall h, fst h <> uid -> heap_get hp' h = heap_get hp h.
Proof. exact f_copy_fresh. Qed.
Print Assumptions C09_filtration_copy_is_fresh.

(* the ownership invariant of worlds -- every complex bound to a variable (or underneath a
   filtration) owns all its dictionaries, under an owner below the world's counter -- is kept by
   creating a complex and by every derived-complex constructor, accepted or rejected: whatever
   constructors produce has an owner of its own and hence (C09_different_owners_share_nothing)
   shares no dictionary with anything else in the world *)
Theorem C09_constructors_keep_world_ownership :
  forall w c x w' o, ctor_result c = Some x -> exec w c = (w', o) -> wown w -> wown w'.
Proof. exact ctor_keeps_wown. Qed.
Print Assumptions C09_constructors_keep_world_ownership.

Theorem C09_new_complex_keeps_world_ownership :
  forall w v w' o, exec w (CNew v) = (w', o) -> wown w -> wown w'.
Proof. exact new_keeps_wown. Qed.
Print Assumptions C09_new_complex_keeps_world_ownership.

Theorem C09_new_filtration_and_queries_keep_world_ownership :
  forall w, wown w ->
  (forall v i w' o, exec w (CNewF v i) = (w', o) -> wown w') /\
  (forall v q w' o, exec w (CQuery v q) = (w', o) -> wown w').
Proof.
  intros w W. split; [intros v i w' o H; exact (newf_keeps_wown _ _ _ _ _ H W)|].
  intros v q w' o H. exact (query_keeps_wown _ _ _ _ _ H W).
Qed.
Print Assumptions C09_new_filtration_and_queries_keep_world_ownership.
