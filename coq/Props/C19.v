(* C19 -- Euler characteristic and Euler integral.  Theorem statements only; proofs in EulerP.v.
   Proved: the Euler characteristic is the alternating sum of the per-order counts (definition of
   the model, checked against the code by the correspondence) and equals the alternating sum of
   the Betti numbers (telescoping of GF(2) ranks).  Tested only: the level-set and simplex-wise
   formulas of the Euler integral (they rest on the effect of restrictBasisTo, C02). *)
From Coq Require Import ZArith List.
From mathcomp Require Import all_ssreflect all_algebra.
From SV Require Import Names Rep Complex Homology ListMat SnfCount Rank Betti EulerP RepInv Shapes ShapesReach.
From SV Require VInv Gen EulerInt.

Theorem C19_chi_def : forall r, eulerCharacteristic r = alt_sum (Zpos xH) (numberOfSimplicesOfOrder r).
Proof. reflexivity. Qed.
Print Assumptions C19_chi_def.

Theorem C19_euler_poincare :
  forall r, alt_sumZ (Zpos xH) (List.map (betti1 r) (List.seq 0 (r_nord r))) =
            alt_sumZ (Zpos xH) (List.map (fun k => Z.of_nat (ncols (boundaryOperator r k))) (List.seq 0 (r_nord r))).
Proof. exact euler_poincare. Qed.
Print Assumptions C19_euler_poincare.

Theorem C19_chi_betti_partial :
  forall r, (forall k, (k < r_nord r)%coq_nat -> ncols (boundaryOperator r k) = length (simplicesOfOrder r k)) ->
  eulerCharacteristic r = alt_sumZ (Zpos xH) (List.map (betti1 r) (List.seq 0 (r_nord r))).
Proof. exact euler_characteristic_is_alt_betti. Qed.
Print Assumptions C19_chi_betti_partial.

(* the hypothesis of the previous theorem holds of every complex of every history (shape
   invariant, C03), so there the Euler characteristic IS the alternating sum of the Betti numbers *)
Theorem C19_chi_is_alternating_betti_sum :
  forall r, sinv r -> eulerCharacteristic r = alt_sumZ (Zpos xH) (List.map (betti1 r) (List.seq 0 (r_nord r))).
Proof. exact euler_is_alternating_betti_sum. Qed.
Print Assumptions C19_chi_is_alternating_betti_sum.
Theorem C19_chi_is_alternating_betti_sum_every_history :
  forall uid ops, let r := List.fold_left rstep ops (empty_rep uid) in
  eulerCharacteristic r = alt_sumZ (Zpos xH) (List.map (betti1 r) (List.seq 0 (r_nord r))).
Proof. exact reachable_euler. Qed.
Print Assumptions C19_chi_is_alternating_betti_sum_every_history.

(* THE EULER INTEGRAL, every complex that meets the vertex-set reading (C01), every heap of attribute
   dictionaries, attribute name and default: when every simplex's metric reads as a number and the
   points' metrics are non-negative, integrate(c) is the sum over the simplices of (-1)^order times
   the smallest metric among the simplex's points (default where the attribute is missing) ... *)
Theorem C19_integral_is_simplexwise_sum :
  forall hp a d c, VInv.vinv c ->
  (forall s, containsSimplex c s = true -> exists z, Gen.metric hp c a d s = Ok z) ->
  (forall p i, assoc p (r_simp c) = Some (0, i) -> Z.le Z0 (EulerInt.m hp a d c p)) ->
  Gen.integrate hp c a d =
  Ok (EulerInt.zsum (fun t => Z.mul (EulerInt.sgn (EulerInt.ord c t)) (EulerInt.minm hp a d c t)) (simplices c false)).
Proof. exact EulerInt.integrate_is_simplexwise_sum. Qed.
Print Assumptions C19_integral_is_simplexwise_sum.
(* ... equivalently the sum over the levels l = 0, 1, .. (below the largest metric) of the Euler
   characteristic of c restricted to the points whose metric exceeds l *)
Theorem C19_integral_is_levelwise_sum :
  forall hp a d c, VInv.vinv c ->
  (forall s, containsSimplex c s = true -> exists z, Gen.metric hp c a d s = Ok z) ->
  (forall p i, assoc p (r_simp c) = Some (0, i) -> Z.le Z0 (EulerInt.m hp a d c p)) ->
  Gen.integrate hp c a d =
  Ok (EulerInt.zsum (fun l => eulerCharacteristic (fst (Gen.levelSet hp c a d (Z.of_nat l))))
        (List.seq 0 (Z.to_nat (List.fold_right Z.max Z0 (List.map (Gen.metric0 hp c a d) (simplices c false)))))).
Proof. exact EulerInt.integrate_is_levelwise_sum. Qed.
Print Assumptions C19_integral_is_levelwise_sum.
(* ... and over isolated points it is the sum of their values *)
Theorem C19_integral_over_isolated_points :
  forall hp a d c, VInv.vinv c ->
  (forall s, containsSimplex c s = true -> exists z, Gen.metric hp c a d s = Ok z) ->
  (forall p i, assoc p (r_simp c) = Some (0, i) -> Z.le Z0 (EulerInt.m hp a d c p)) ->
  le (r_nord c) 1 -> Gen.integrate hp c a d = Ok (EulerInt.zsum (EulerInt.m hp a d c) (simplices c false)).
Proof. exact EulerInt.integrate_isolated_points. Qed.
Print Assumptions C19_integral_over_isolated_points.
(* the Euler characteristic is the sum over the simplices of (-1)^order *)
Theorem C19_chi_is_sum_of_signs :
  forall r, pinv r -> eulerCharacteristic r = EulerInt.zsum (fun t => EulerInt.sgn (EulerInt.ord r t)) (simplices r false).
Proof. exact EulerInt.euler_as_sum. Qed.
Print Assumptions C19_chi_is_sum_of_signs.
