(* C19 -- Euler characteristic and Euler integral.  Theorem statements only; proofs in EulerP.v.
   Proved: the Euler characteristic is the alternating sum of the per-order counts (definition of
   the model, checked against the code by the correspondence) and equals the alternating sum of
   the Betti numbers (telescoping of GF(2) ranks).  Tested only: the level-set and simplex-wise
   formulas of the Euler integral (they rest on the effect of restrictBasisTo, C02). *)
From Coq Require Import ZArith List.
From mathcomp Require Import all_ssreflect all_algebra.
From SV Require Import Names Rep Complex Homology ListMat SnfCount Rank Betti EulerP RepInv Shapes ShapesReach.

Theorem C19_chi_def : forall r, eulerCharacteristic r = alt_sum (Zpos xH) (numberOfSimplicesOfOrder r).
Proof. reflexivity. Qed.
Print Assumptions C19_chi_def.

Theorem C19_euler_poincare :
  forall r, alt_sumZ (Zpos xH) (List.map (betti1 r) (List.seq 0 (r_nord r))) =
            alt_sumZ (Zpos xH) (List.map (fun k => Z.of_nat (ncols (boundaryOperator r k))) (List.seq 0 (r_nord r))).
Proof. exact euler_poincare. Qed.
Print Assumptions C19_euler_poincare.

Theorem C19_chi_betti_partial :
  forall r, (forall k, (k < r_nord r)%coq_nat -> ncols (boundaryOperator r k) = length (simplicesOfOrder r k)) ->
  eulerCharacteristic r = alt_sumZ (Zpos xH) (List.map (betti1 r) (List.seq 0 (r_nord r))).
Proof. exact euler_characteristic_is_alt_betti. Qed.
Print Assumptions C19_chi_betti_partial.

(* the hypothesis of the previous theorem holds of every complex of every history (shape
   invariant, C03), so there the Euler characteristic IS the alternating sum of the Betti numbers *)
Theorem C19_chi_is_alternating_betti_sum :
  forall r, sinv r -> eulerCharacteristic r = alt_sumZ (Zpos xH) (List.map (betti1 r) (List.seq 0 (r_nord r))).
Proof. exact euler_is_alternating_betti_sum. Qed.
Print Assumptions C19_chi_is_alternating_betti_sum.
Theorem C19_chi_is_alternating_betti_sum_every_history :
  forall uid ops, let r := List.fold_left rstep ops (empty_rep uid) in
  eulerCharacteristic r = alt_sumZ (Zpos xH) (List.map (betti1 r) (List.seq 0 (r_nord r))).
Proof. exact reachable_euler. Qed.
Print Assumptions C19_chi_is_alternating_betti_sum_every_history.
