(* C19 -- Euler characteristic and Euler integral.  Theorem statements only; proofs in EulerP.v.
   Proved: the Euler characteristic is the alternating sum of the per-order counts (definition of
   the model, checked against the code by the correspondence) and equals the alternating sum of
   the Betti numbers (telescoping of GF(2) ranks).  Tested only: the level-set and simplex-wise
   formulas of the Euler integral (they rest on the effect of restrictBasisTo, C02). *)
From Coq Require Import ZArith List.
From mathcomp Require Import all_ssreflect all_algebra.
From SV Require Import Names Rep Complex Homology ListMat SnfCount Rank Betti EulerP RepInv Shapes ShapesReach.
From SV Require EulerAdd EulerCompose.

From SV Require VInv Gen EulerInt.

Theorem C19_chi_def : forall r, eulerCharacteristic r = alt_sum (Zpos xH) (numberOfSimplicesOfOrder r).
Proof. reflexivity. Qed.
Print Assumptions C19_chi_def.

Theorem C19_euler_poincare :
  forall r, alt_sumZ (Zpos xH) (List.map (betti1 r) (List.seq 0 (r_nord r))) =
            alt_sumZ (Zpos xH) (List.map (fun k => Z.of_nat (ncols (boundaryOperator r k))) (List.seq 0 (r_nord r))).
Proof. exact euler_poincare. Qed.
Print Assumptions C19_euler_poincare.

Theorem C19_chi_betti_partial :
  forall r, (forall k, (k < r_nord r)%coq_nat -> ncols (boundaryOperator r k) = length (simplicesOfOrder r k)) ->
  eulerCharacteristic r = alt_sumZ (Zpos xH) (List.map (betti1 r) (List.seq 0 (r_nord r))).
Proof. exact euler_characteristic_is_alt_betti. Qed.
Print Assumptions C19_chi_betti_partial.

(* the hypothesis of the previous theorem holds of every complex of every history (shape
   invariant, C03), so there the Euler characteristic IS the alternating sum of the Betti numbers *)
Theorem C19_chi_is_alternating_betti_sum :
  forall r, sinv r -> eulerCharacteristic r = alt_sumZ (Zpos xH) (List.map (betti1 r) (List.seq 0 (r_nord r))).
Proof. exact euler_is_alternating_betti_sum. Qed.
Print Assumptions C19_chi_is_alternating_betti_sum.
Theorem C19_chi_is_alternating_betti_sum_every_history :
  forall uid ops, let r := List.fold_left rstep ops (empty_rep uid) in
  eulerCharacteristic r = alt_sumZ (Zpos xH) (List.map (betti1 r) (List.seq 0 (r_nord r))).
Proof. exact reachable_euler. Qed.
Print Assumptions C19_chi_is_alternating_betti_sum_every_history.

(* THE EULER INTEGRAL, every complex that meets the vertex-set reading (C01), every heap of attribute
   dictionaries, attribute name and default: when every simplex's metric reads as a number and the
   points' metrics are non-negative, integrate(c) is the sum over the simplices of (-1)^order times
   the smallest metric among the simplex's points (default where the attribute is missing) ... *)
Theorem C19_integral_is_simplexwise_sum :
  forall hp a d c, VInv.vinv c ->
  (forall s, containsSimplex c s = true -> exists z, Gen.metric hp c a d s = Ok z) ->
  (forall p i, assoc p (r_simp c) = Some (0, i) -> Z.le Z0 (EulerInt.m hp a d c p)) ->
  Gen.integrate hp c a d =
  Ok (EulerInt.zsum (fun t => Z.mul (EulerInt.sgn (EulerInt.ord c t)) (EulerInt.minm hp a d c t)) (simplices c false)).
Proof. exact EulerInt.integrate_is_simplexwise_sum. Qed.
Print Assumptions C19_integral_is_simplexwise_sum.
(* ... equivalently the sum over the levels l = 0, 1, .. (below the largest metric) of the Euler
   characteristic of c restricted to the points whose metric exceeds l *)
Theorem C19_integral_is_levelwise_sum :
  forall hp a d c, VInv.vinv c ->
  (forall s, containsSimplex c s = true -> exists z, Gen.metric hp c a d s = Ok z) ->
  (forall p i, assoc p (r_simp c) = Some (0, i) -> Z.le Z0 (EulerInt.m hp a d c p)) ->
  Gen.integrate hp c a d =
  Ok (EulerInt.zsum (fun l => eulerCharacteristic (fst (Gen.levelSet hp c a d (Z.of_nat l))))
        (List.seq 0 (Z.to_nat (List.fold_right Z.max Z0 (List.map (Gen.metric0 hp c a d) (simplices c false)))))).
Proof. exact EulerInt.integrate_is_levelwise_sum. Qed.
Print Assumptions C19_integral_is_levelwise_sum.
(* ... and over isolated points it is the sum of their values *)
Theorem C19_integral_over_isolated_points :
  forall hp a d c, VInv.vinv c ->
  (forall s, containsSimplex c s = true -> exists z, Gen.metric hp c a d s = Ok z) ->
  (forall p i, assoc p (r_simp c) = Some (0, i) -> Z.le Z0 (EulerInt.m hp a d c p)) ->
  le (r_nord c) 1 -> Gen.integrate hp c a d = Ok (EulerInt.zsum (EulerInt.m hp a d c) (simplices c false)).
Proof. exact EulerInt.integrate_isolated_points. Qed.
Print Assumptions C19_integral_over_isolated_points.
(* the Euler characteristic is the sum over the simplices of (-1)^order *)
Theorem C19_chi_is_sum_of_signs :
  forall r, pinv r -> eulerCharacteristic r = EulerInt.zsum (fun t => EulerInt.sgn (EulerInt.ord r t)) (simplices r false).
Proof. exact EulerInt.euler_as_sum. Qed.
Print Assumptions C19_chi_is_sum_of_signs.

(* ADDITIVE OVER DISJOINT UNIONS: when the simplices of u are those of x and of y (each once), and every simplex
   has in u the order and the smallest point metric it has in its part, the integral of u is the sum of the two *)
Theorem C19_integral_is_additive_over_disjoint_unions :
  forall hp a d u x y, VInv.vinv u -> VInv.vinv x -> VInv.vinv y ->
  (forall s, containsSimplex u s = true -> exists z, Gen.metric hp u a d s = Ok z) ->
  (forall s, containsSimplex x s = true -> exists z, Gen.metric hp x a d s = Ok z) ->
  (forall s, containsSimplex y s = true -> exists z, Gen.metric hp y a d s = Ok z) ->
  (forall p i, assoc p (r_simp u) = Some (0, i) -> Z.le Z0 (EulerInt.m hp a d u p)) ->
  (forall p i, assoc p (r_simp x) = Some (0, i) -> Z.le Z0 (EulerInt.m hp a d x p)) ->
  (forall p i, assoc p (r_simp y) = Some (0, i) -> Z.le Z0 (EulerInt.m hp a d y p)) ->
  Permutation.Permutation (simplices u false) (simplices x false ++ simplices y false) ->
  (forall s, In s (simplices x false) -> EulerInt.ord u s = EulerInt.ord x s /\ EulerInt.minm hp a d u s = EulerInt.minm hp a d x s) ->
  (forall s, In s (simplices y false) -> EulerInt.ord u s = EulerInt.ord y s /\ EulerInt.minm hp a d u s = EulerInt.minm hp a d y s) ->
  exists zx zy, Gen.integrate hp x a d = Ok zx /\ Gen.integrate hp y a d = Ok zy /\ Gen.integrate hp u a d = Ok (Z.add zx zy).
Proof. exact EulerAdd.integrate_additive. Qed.
Print Assumptions C19_integral_is_additive_over_disjoint_unions.

(* ... AND ON THE CODE'S OWN UNION: for complexes a and c that share no name (with non-negative integer metrics), when
   a.compose(c) succeeds -- it does for operands that share no points either, C16_compatible_operands_are_composed --
   the integral of the result is the sum of the integrals of a and c.  (The operands' dictionaries belong to other
   owners than the new complex: every two distinct complexes, C09.) *)
Theorem C19_integral_of_a_composition_of_disjoint_complexes :
  forall a c uid hp hp' d at_ dflt, VInv.vinv a -> VInv.vinv c ->
  (forall s h, assoc s (r_attr a) = Some h -> fst h <> uid) ->
  (forall s h, assoc s (r_attr c) = Some h -> fst h <> uid) -> uid <> 0 ->
  (forall s, containsSimplex a s = true -> containsSimplex c s = false) ->
  (forall s, containsSimplex a s = true -> exists z, Gen.metric hp a at_ dflt s = Ok z) ->
  (forall s, containsSimplex c s = true -> exists z, Gen.metric hp c at_ dflt s = Ok z) ->
  (forall p i, assoc p (r_simp a) = Some (0, i) -> Z.le Z0 (EulerInt.m hp at_ dflt a p)) ->
  (forall p i, assoc p (r_simp c) = Some (0, i) -> Z.le Z0 (EulerInt.m hp at_ dflt c p)) ->
  compose hp a c None uid = (hp', d, Ok tt) ->
  exists za zc, Gen.integrate hp a at_ dflt = Ok za /\ Gen.integrate hp c at_ dflt = Ok zc /\
                Gen.integrate hp' d at_ dflt = Ok (Z.add za zc).
Proof. exact EulerCompose.integrate_compose_disjoint. Qed.
Print Assumptions C19_integral_of_a_composition_of_disjoint_complexes.
