(* C08 -- queries and derived-complex constructors never modify their inputs.
   Theorem statements only; proofs in WorldProofs.v.  In the model every query is a function of
   the world that returns the world unchanged, and a copy-like constructor binds only its result
   variable and writes only heap cells of the new object's owner.  Whether the *code* behaves like
   that (in-place numpy updates, shared dictionaries) is what the correspondence and the
   before/after oracle check on every run (tested_only: the numpy aliasing of boundary matrices). *)
From Coq Require Import String ZArith Bool Arith List.
From SV Require Import Names NamesFacts ListFacts Rep Fresh Complex Atomic RepInv Reach Homology Filtration Gen World WorldProofs CtorFrame DeepcopyFrame DeepcopyContents FiltCopyFrame CtorHeapFrame ComplexesFrame IntoFrame.

(* any read-only query -- Betti numbers, normal forms, cycle bases, boundaries, Euler
   characteristic and integral, comparisons, ... -- returns the world it was given *)
Theorem C08_query_leaves_world : forall w v q w' o, exec w (CQuery v q) = (w', o) -> w' = w.
Proof. exact query_leaves_world. Qed.
Print Assumptions C08_query_leaves_world.

(* copy() of a complex or a filtration: every other variable is bound to what it was bound to *)
Theorem C08_copy_binds_only_its_result :
  forall w x v orders w' o y, exec w (CCopy x v orders) = (w', o) -> y <> x -> vget (w_vars w') y = vget (w_vars w) y.
Proof. exact copy_binds_only_result. Qed.
Print Assumptions C08_copy_binds_only_its_result.

(* ... and the attribute dictionaries that existed before are not written *)
Theorem C08_copy_writes_only_new_cells :
  forall hp src uid hp' r' x, copy_new hp src uid = (hp', r', x) ->
  forall h, fst h <> uid -> heap_get hp' h = heap_get hp h.
Proof. intros hp src uid hp' r' x H. now destruct (copy_new_fresh _ _ _ _ _ _ H) as (_ & _ & ?). Qed.
Print Assumptions C08_copy_writes_only_new_cells.

(* copy, deepcopy, compose, flagComplex, JSON decoding, snap, vietorisRipsComplex and one step of
   complexes() change no variable of the world but the one they bind *)
Theorem C08_constructors_bind_only_result :
  forall w c x w' o y, ctor_result c = Some x -> exec w c = (w', o) -> y <> x ->
  vget (w_vars w') y = vget (w_vars w) y.
Proof. exact ctor_binds_only_result. Qed.
Print Assumptions C08_constructors_bind_only_result.

(* copy.deepcopy: the attribute dictionaries that existed before are not written (uid is the new
   object's owner, fresh in exec) ... *)
Theorem C08_deepcopy_writes_only_new_cells :
  forall hp r uid hp' r', deepcopy_rep hp r uid = (hp', r') ->
  forall h, fst h <> uid -> heap_get hp' h = heap_get hp h.
Proof. exact deepcopy_writes_only_new_cells. Qed.
Print Assumptions C08_deepcopy_writes_only_new_cells.

(* ... the result has the source's structure field by field, one attribute entry per entry of the
   source under the same names, and every dictionary of the result belongs to the new owner *)
Theorem C08_deepcopy_structure_and_ownership :
  forall hp r uid hp' r', deepcopy_rep hp r uid = (hp', r') ->
  (r_uid r' = uid /\ r_nord r' = r_nord r /\ r_simp r' = r_simp r /\ r_idx r' = r_idx r /\
   r_bnd r' = r_bnd r /\ r_bas r' = r_bas r /\ r_seq r' = r_seq r) /\
  map fst (r_attr r') = map fst (r_attr r) /\ Forall (fun q => fst (snd q) = uid) (r_attr r').
Proof.
  intros hp r uid hp' r' H. split; [exact (deepcopy_same_structure _ _ _ _ _ H)|].
  exact (deepcopy_attr_names_and_owner _ _ _ _ _ H).
Qed.
Print Assumptions C08_deepcopy_structure_and_ownership.

(* ... and, entry by entry, the copy's dictionary holds what the source's held at the call (uid owns
   no dictionary of the source: it is fresh in exec), whether or not names share a dictionary *)
Theorem C08_deepcopy_contents :
  forall hp r uid hp' r', deepcopy_rep hp r uid = (hp', r') ->
  Forall (fun p => fst (snd p) <> uid) (r_attr r) ->
  Forall2 (fun q p => fst q = fst p /\ fst (snd q) = uid /\ heap_get hp' (snd q) = heap_get hp (snd p))
          (r_attr r') (r_attr r).
Proof. exact deepcopy_contents. Qed.
Print Assumptions C08_deepcopy_contents.

(* stated with the ownership invariant every reachable complex meets (WorldProofs.owned): the deep
   copy is owned by the new uid, and holds the source's attribute values entry by entry *)
Theorem C08_deepcopy_of_an_owned_complex :
  forall hp r uid hp' r', owned r -> r_uid r <> uid -> deepcopy_rep hp r uid = (hp', r') ->
  (owned r' /\ r_uid r' = uid) /\
  Forall2 (fun q p => fst q = fst p /\ fst (snd q) = uid /\ heap_get hp' (snd q) = heap_get hp (snd p))
          (r_attr r') (r_attr r).
Proof.
  intros hp r uid hp' r' Ho Hne H. split; [exact (deepcopy_owned _ _ _ _ _ H)|].
  exact (deepcopy_contents_owned _ _ _ _ _ Ho Hne H).
Qed.
Print Assumptions C08_deepcopy_of_an_owned_complex.

(* every derived-complex constructor, accepted or rejected: no attribute dictionary that existed before
   the call is written (owners are handed out from the world's counter, so the dictionaries that
   existed are those whose owner is below it) *)
Theorem C08_constructors_write_no_existing_dictionary :
  forall w c x w' o, ctor_result c = Some x -> exec w c = (w', o) ->
  forall h, fst h < w_uid w -> heap_get (w_heap w') h = heap_get (w_heap w) h.
Proof. exact ctor_heap_frame. Qed.
Print Assumptions C08_constructors_write_no_existing_dictionary.

(* Filtration.copy(): the complex underneath the result owns all its dictionaries under the new
   uid; nothing of another owner is written *)
Theorem C08_filtration_copy_writes_only_new_cells :
  forall hp f uid orders hp' c x, f_copy hp f uid orders = (hp', c, x) ->
  owned (f_rep c) /\ r_uid (f_rep c) = uid /\ forall h, fst h <> uid -> heap_get hp' h = heap_get hp h.
Proof. exact f_copy_fresh. Qed.
Print Assumptions C08_filtration_copy_writes_only_new_cells.

(* complexes() taken as a whole (one snapshot per index, each bound to its own variable): however
   many it builds and wherever it stops, no dictionary that existed before the call is written *)
Theorem C08_complexes_writes_no_existing_dictionary :
  forall w f pre w' o, exec w (CComplexes f pre) = (w', o) ->
  forall h, fst h < w_uid w -> heap_get (w_heap w') h = heap_get (w_heap w) h.
Proof. exact complexes_heap_frame. Qed.
Print Assumptions C08_complexes_writes_no_existing_dictionary.

(* constructors filling a caller-supplied target -- copy(c) / snap into c, and compose with a
   target: only dictionaries of the target's own owner may be written, so nothing of the source
   or of the operands (which have other owners, C09_different_owners_share_nothing) is *)
Theorem C08_copy_into_target_writes_only_the_targets_cells :
  forall w v x w' o t,
  (exec w (CCopyInto v x) = (w', o) \/ exec w (CSnapInto v x) = (w', o)) ->
  vget (w_vars w) x = Some (OCx t) -> owned t ->
  forall h, fst h <> r_uid t -> heap_get (w_heap w') h = heap_get (w_heap w) h.
Proof. exact copy_into_exec_frame. Qed.
Print Assumptions C08_copy_into_target_writes_only_the_targets_cells.

Theorem C08_compose_into_target_writes_only_the_targets_cells :
  forall w a b d w' o t,
  exec w (CComposeInto a b d) = (w', o) -> vget (w_vars w) d = Some (OCx t) -> owned t ->
  forall h, fst h <> r_uid t -> heap_get (w_heap w') h = heap_get (w_heap w) h.
Proof. exact compose_into_exec_frame. Qed.
Print Assumptions C08_compose_into_target_writes_only_the_targets_cells.
