(* C03 -- matrix, face/coface, basis and index views describe the same complex: the part proved
   for every history (index view = listing view).  Theorem statements only; proofs in RepInv.v.
   Proved for every history too: the SHAPE of every boundary operator and basis matrix (one
   column per k-simplex, one row per (k-1)-simplex / per point) -- Shapes.v, ShapesReach.v.
   Not proved for unbounded histories (bounded kernel sweep + oracle): the entries of the boundary
   operators against faces(), cofaces as the inverse of faces, basis = points of the closure, d.d = 0. *)
From Coq Require Import String ZArith Bool Arith List.
From SV Require Import Names NamesFacts ListFacts Rep Fresh Complex Atomic RepInv Reach Homology Filtration Gen World Small Sweeps Shapes ShapesReach Incidence Closed ClosedReach Duality BasisInv VInv DD.
Import ListNotations.

(* indexOf is the simplex's position in the listing of its order, orderOf that order *)
Theorem C03_indexOf_is_listing_position_partial :
  forall r s k i, pinv r ->
  ((orderOf r s = Ok k /\ indexOf r s = Ok i) <-> nth_error (simplicesOfOrder r k) i = Some s).
Proof. exact orderOf_indexOf_position. Qed.
Print Assumptions C03_indexOf_is_listing_position_partial.

(* ... at every point of every history *)
Theorem C03_invariant_at_every_point : forall uid ops, pinv (fold_left rstep ops (empty_rep uid)).
Proof. exact reachable_pinv. Qed.
Print Assumptions C03_invariant_at_every_point.

(* the listing above the maximum order is empty *)
Theorem C03_nothing_above_max : forall r k, pinv r -> r_nord r <= k -> simplicesOfOrder r k = [].
Proof.
  intros r k H Hk. unfold simplicesOfOrder. destruct (k <? r_nord r) eqn:E; auto.
  apply PeanoNat.Nat.ltb_lt in E. exfalso. apply (PeanoNat.Nat.lt_irrefl k). eapply PeanoNat.Nat.lt_le_trans; eauto.
Qed.
Print Assumptions C03_nothing_above_max.

(* BOUNDED (computed by the kernel): the boolean viewsb -- shapes and entries of every boundary
   operator against faces(), the 1 x n0 zero row for k = 0, the empty matrix above the maximum,
   cofaces the inverse of faces, indexOf the listing position, basis = points of the closure,
   boundary of a boundary empty -- for every complex on at most 4 labelled points, and after every
   single deletion and every addition by basis applied to it *)
Theorem C03_views_agree_upto4_partial : forall c, In c complexes4 ->
  fam_eq (fam (build c)) (closure_of c) && wfb (build c) && viewsb (build c) = true.
Proof. exact built_complexes_upto4. Qed.
Print Assumptions C03_views_agree_upto4_partial.
Theorem C03_views_agree_after_mutation_upto4_partial : forall c, In c complexes4 ->
  chk_delete (build c) = true /\ chk_addb (build c) = true.
Proof. intros c H. split; [now apply delete_upto4 | now apply addb_upto4]. Qed.
Print Assumptions C03_views_agree_after_mutation_upto4_partial.

(* SHAPES, every history: the order-k boundary operator has one column per k-simplex and one row
   per (k-1)-simplex (sinv also says the same of the basis matrices: one row per point) ... *)
Theorem C03_boundary_shape :
  forall r k, sinv r -> k < r_nord r ->
  ncols (boundaryOperator r k) = length (simplicesOfOrder r k) /\
  (1 <= k -> nrows (boundaryOperator r k) = length (simplicesOfOrder r (k - 1))).
Proof. exact boundary_shape. Qed.
Print Assumptions C03_boundary_shape.
(* ... also for k = 0 (the 1 x n0 zero row) and above the maximum order (the empty matrix) *)
Theorem C03_boundary_columns :
  forall r k, sinv r -> ncols (boundaryOperator r k) = length (simplicesOfOrder r k).
Proof. exact boundary_ncols. Qed.
Print Assumptions C03_boundary_columns.
(* ... where sinv holds at every point of every history of the three mutators of the representation *)
Theorem C03_shapes_at_every_point : forall uid ops, sinv (fold_left rstep ops (empty_rep uid)).
Proof. exact reachable_sinv. Qed.
Print Assumptions C03_shapes_at_every_point.
(* ... and is kept by every algorithm of base.py, whether the call succeeds or raises *)
Theorem C03_shapes_kept_by_every_public_mutator :
  (forall r s r' x, sinv r -> deleteSimplex r s = (r', x) -> sinv r') /\
  (forall r bs r' x, sinv r -> deleteSimplexWithBasis r bs = (r', x) -> sinv r') /\
  (forall r ss r' x, sinv r -> deleteSimplices r ss = (r', x) -> sinv r') /\
  (forall r bs r' x, sinv r -> restrictBasisTo r bs = (r', x) -> sinv r') /\
  (forall r bs attr r' x, sinv r -> c_ensureBasis r bs attr = (r', x) -> sinv r') /\
  (forall r bs id attr r' x, sinv r -> c_addSimplexWithBasis r bs id attr = (r', x) -> sinv r') /\
  (forall r s pts r' x, sinv r -> barycentricSubdivide r s pts = (r', x) -> sinv r') /\
  (forall r rn r' st x, sinv r -> relabel r rn = (r', st, x) -> sinv r') /\
  (forall hp r src rn hp' r' st x, sinv r -> addSimplicesFrom hp r src rn = (hp', r', st, x) -> sinv r') /\
  (forall hp src uid hp' r' x, copy_new hp src uid = (hp', r', x) -> sinv r') /\
  (forall hp src target hp' r' x, sinv target -> copy_into hp src target = (hp', r', x) -> sinv r').
Proof.
  exact (conj deleteSimplex_sinv (conj deleteSimplexWithBasis_sinv (conj deleteSimplices_sinv
        (conj restrictBasisTo_sinv (conj ensureBasis_sinv (conj addSimplexWithBasis_sinv
        (conj barycentricSubdivide_sinv (conj relabel_sinv (conj addSimplicesFrom_sinv
        (conj copy_new_sinv copy_into_sinv)))))))))).
Qed.
Print Assumptions C03_shapes_kept_by_every_public_mutator.
(* the invariant is not vacuous: it unfolds to concrete shape statements (see Shapes.v) and the
   sweep above evaluates the same shapes on every complex on <= 4 points *)

(* ENTRIES, every history: row i / column j of the order-(k+1) boundary operator stand for the i-th
   k-simplex and the j-th (k+1)-simplex of the listings, and the entry is 1 exactly where the row
   simplex is a face of the column simplex *)
Theorem C03_boundary_entries :
  forall r k i j s t, sinv r ->
  nth_error (simplicesOfOrder r (S k)) j = Some s -> nth_error (simplicesOfOrder r k) i = Some t ->
  (mentry (boundaryOperator r (S k)) i j = true <-> In t (faces r s)).
Proof. exact boundary_entries. Qed.
Print Assumptions C03_boundary_entries.
(* cofaces is the exact inverse relation of faces *)
Theorem C03_cofaces_inverse_of_faces :
  forall r, sinv r -> forall s t, In t (faces r s) <-> In s (cofaces r t).
Proof. exact cofaces_inverse_of_faces. Qed.
Print Assumptions C03_cofaces_inverse_of_faces.

(* BASIS = POINTS OF THE CLOSURE, every history of public operations: the invariant bcinv (closedness
   + "a point is its own basis, the basis of a higher simplex is the union of the bases of its
   faces") holds after any sequence of the eleven public mutators ... *)
Theorem C03_public_histories_keep_the_basis_invariant : forall uid ops, bcinv (fold_left pstep ops (empty_rep uid)).
Proof. exact public_history_bcinv. Qed.
Print Assumptions C03_public_histories_keep_the_basis_invariant.
(* ... under which the basis of a simplex of order k is exactly what is reached from it by k face
   steps: the points in its closure *)
Theorem C03_basis_is_the_points_of_the_closure :
  forall r, bcinv r -> forall k t j, assoc t (r_simp r) = Some (k, j) ->
  forall p, In p (basisOf r t) <-> fchain r k t p.
Proof. exact basis_is_closure_points. Qed.
Print Assumptions C03_basis_is_the_points_of_the_closure.

(* CONSEQUENTLY, every complex that meets the vertex-set reading (C01_vertex_set_reading_at_every_point):
   consecutive boundary operators multiply to zero mod 2 -- entry (i, j) of d_{k+1} . d_{k+2}, the mod-2
   sum over the (k+1)-simplices u of d_{k+1}[i,u] * d_{k+2}[u,j], is 0 (a (k+2)-simplex reaches a
   k-simplex through no face or through exactly two: DD.two_ways_down) *)
Theorem C03_consecutive_boundaries_multiply_to_zero :
  forall r, vinv r -> forall k i j,
  i < length (simplicesOfOrder r k) -> j < length (simplicesOfOrder r (S (S k))) ->
  parity (map (fun u => mentry (boundaryOperator r (S k)) i u && mentry (boundaryOperator r (S (S k))) u j)
              (seq 0 (length (simplicesOfOrder r (S k))))) = false.
Proof. exact dd_zero. Qed.
Print Assumptions C03_consecutive_boundaries_multiply_to_zero.
(* boundary() of a chain is the mod-2 sum of its members' faces: no repeats, and w is listed exactly
   when it is a face of an odd number of members *)
Theorem C03_boundary_is_mod2_sum :
  forall r, vinv r -> forall ss b, boundary r ss = Ok b ->
  NoDup b /\ forall w, In w b <-> parity (map (fun s => memn w (faces r s)) ss) = true.
Proof. exact boundary_is_mod2_sum. Qed.
Print Assumptions C03_boundary_is_mod2_sum.
(* and the boundary of a boundary is empty *)
Theorem C03_boundary_of_boundary_is_empty :
  forall r, vinv r -> forall ss b, boundary r ss = Ok b -> boundary r b = Ok nil.
Proof. exact boundary_of_boundary. Qed.
Print Assumptions C03_boundary_of_boundary_is_empty.
