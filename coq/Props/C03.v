(* C03 -- matrix, face/coface, basis and index views describe the same complex: the part proved
   for every history (index view = listing view).  Theorem statements only; proofs in RepInv.v.
   Not proved yet (tested by the oracle): the entries of the boundary operators against faces(),
   cofaces as the inverse of faces, basis = points of the closure, d.d = 0. *)
From Coq Require Import String ZArith Bool Arith List.
From SV Require Import Names NamesFacts ListFacts Rep Fresh Complex Atomic RepInv Reach Homology Filtration Gen World Small Sweeps.
Import ListNotations.

(* indexOf is the simplex's position in the listing of its order, orderOf that order *)
Theorem C03_indexOf_is_listing_position_partial :
  forall r s k i, pinv r ->
  ((orderOf r s = Ok k /\ indexOf r s = Ok i) <-> nth_error (simplicesOfOrder r k) i = Some s).
Proof. exact orderOf_indexOf_position. Qed.
Print Assumptions C03_indexOf_is_listing_position_partial.

(* ... at every point of every history *)
Theorem C03_invariant_at_every_point : forall uid ops, pinv (fold_left rstep ops (empty_rep uid)).
Proof. exact reachable_pinv. Qed.
Print Assumptions C03_invariant_at_every_point.

(* the listing above the maximum order is empty *)
Theorem C03_nothing_above_max : forall r k, pinv r -> r_nord r <= k -> simplicesOfOrder r k = [].
Proof.
  intros r k H Hk. unfold simplicesOfOrder. destruct (k <? r_nord r) eqn:E; auto.
  apply PeanoNat.Nat.ltb_lt in E. exfalso. apply (PeanoNat.Nat.lt_irrefl k). eapply PeanoNat.Nat.lt_le_trans; eauto.
Qed.
Print Assumptions C03_nothing_above_max.

(* BOUNDED (computed by the kernel): the boolean viewsb -- shapes and entries of every boundary
   operator against faces(), the 1 x n0 zero row for k = 0, the empty matrix above the maximum,
   cofaces the inverse of faces, indexOf the listing position, basis = points of the closure,
   boundary of a boundary empty -- for every complex on at most 4 labelled points, and after every
   single deletion and every addition by basis applied to it *)
Theorem C03_views_agree_upto4_partial : forall c, In c complexes4 ->
  fam_eq (fam (build c)) (closure_of c) && wfb (build c) && viewsb (build c) = true.
Proof. exact built_complexes_upto4. Qed.
Print Assumptions C03_views_agree_upto4_partial.
Theorem C03_views_agree_after_mutation_upto4_partial : forall c, In c complexes4 ->
  chk_delete (build c) = true /\ chk_addb (build c) = true.
Proof. intros c H. split; [now apply delete_upto4 | now apply addb_upto4]. Qed.
Print Assumptions C03_views_agree_after_mutation_upto4_partial.
