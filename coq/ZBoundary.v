(* ZBoundary.v -- every chain returned by Z() has empty boundary() through the public call (C07). *)
From Coq Require Import String ZArith Bool Arith List Lia.
From SV Require Import Names NamesFacts ListFacts Rep Fresh Complex Homology Atomic ListMat SnfCount RepInv Reach Shapes Incidence
                       Closed VInv ZCycles ZProofs2 DD.
Import ListNotations.
Open Scope nat_scope.

(* ---------- labels only ever contain names of the listing ---------- *)
Section Labels.
  Variable Q : list name -> Prop.
  Hypothesis Qnil : Q [].
  Hypothesis Qapp : forall a b, Q a -> Q b -> Q (a ++ b).

  Lemma Forall_set_nth {A} (R : A -> Prop) (l : list A) : forall i x, Forall R l -> R x -> Forall R (set_nth i x l).
  Proof.
    induction l as [|a l IH]; intros i x Hl Hx; [destruct i; constructor|].
    inversion Hl as [|? ? Ha Hl']; subst. destruct i; simpl; constructor; auto.
  Qed.
  Lemma Forall_nth' {A} (R : A -> Prop) (l : list A) d i : Forall R l -> R d -> R (nth i l d).
  Proof.
    revert i. induction l as [|a l IH]; intros i Hl Hd; [destruct i; exact Hd|].
    inversion Hl as [|? ? Ha Hl']; subst. destruct i; simpl; auto.
  Qed.
  Lemma Forall_mapi_from {A} (R : A -> Prop) (f : nat -> A -> A) : (forall j c, R c -> R (f j c)) ->
    forall l i, Forall R l -> Forall R (mapi_from i f l).
  Proof.
    intros Hf. induction l as [|a l IH]; intros i Hl; simpl; [constructor|].
    inversion Hl as [|? ? Ha Hl']; subst. constructor; auto.
  Qed.

  Lemma step_Q x k l M (cls : list (list name)) : Forall Q cls -> Forall Q (snd (reduce_step x k l M cls)).
  Proof.
    intros H. unfold reduce_step. cbn [snd].
    assert (H2 : Forall Q (swap [] x l cls)).
    { unfold swap. apply Forall_set_nth; [apply Forall_set_nth; auto|]; apply Forall_nth'; auto. }
    unfold mapi. apply Forall_mapi_from; auto.
    intros j c Hc. destruct (_ && _); auto. apply Qapp; auto. apply Forall_nth'; auto.
  Qed.
  Lemma reduce_Q fuel : forall x M (cls : list (list name)), Forall Q cls -> Forall Q (snd (reduce fuel x M cls)).
  Proof.
    induction fuel as [|f IH]; intros x M cls H; cbn [reduce]; [exact H|].
    destruct (find_pivot x M) as [[k l]|]; [|exact H].
    pose proof (step_Q x k l M cls H) as H1. destruct (reduce_step x k l M cls) as [M' cls']. apply IH. exact H1.
  Qed.
End Labels.

Lemma Z1_members r k ch : In ch (Z1 r k) -> incl ch (simplicesOfOrder r k).
Proof.
  intros H. unfold Z1 in H.
  set (B := boundaryOperator r k) in *. set (names := simplicesOfOrder r k) in *.
  pose proof (reduce_Q (fun c => incl c names) (fun x H => match H with end)
                (fun a b Ha Hb x Hx => match in_app_or _ _ _ Hx with or_introl h => Ha x h | or_intror h => Hb x h end)
                (min (nrows B) (ncols B)) 0 (rows_of B) (map (fun s => [s]) names)) as HQ.
  unfold reduceB in H. destruct (reduce _ 0 (rows_of B) _) as [A cls'] eqn:E. cbn [snd] in HQ.
  assert (F : Forall (fun c => incl c names) cls').
  { apply HQ. apply Forall_forall. intros c Hc. apply in_map_iff in Hc. destruct Hc as (s & <- & Hs). intros x [<-|[]]. exact Hs. }
  rewrite Forall_forall in F. apply F. revert H. generalize (ncols B - kernelDim (nrows B, ncols B, A)).
  intros n. clear. revert cls'. induction n as [|n IH]; intros cls' H; [exact H|]. destruct cls'; [destruct H|]. right. now apply IH.
Qed.

Lemma vsum_parity (val : name -> nat -> bool) l i : vsum name val l i = parity (map (fun s => val s i) l).
Proof. unfold vsum. induction l as [|a l IH]; [reflexivity|]. cbn [fold_right map parity]. now rewrite IH. Qed.

(* EVERY CHAIN OF Z() HAS EMPTY BOUNDARY THROUGH THE PUBLIC CALL *)
Theorem Z1_boundary_empty r k ch : sinv r -> In ch (Z1 r k) -> boundary r ch = Ok [].
Proof.
  intros HS Hin. pose proof (s_p r HS) as P. pose proof P as [K Pm St Lr].
  pose proof (Z1_members r k ch Hin) as Hm.
  assert (Hord : forall s, In s ch -> exists i, assoc s (r_simp r) = Some (k, i)).
  { intros s Hs. apply Hm in Hs. unfold simplicesOfOrder in Hs. destruct (k <? r_nord r) eqn:Lt; [|destruct Hs].
    apply Nat.ltb_lt in Lt. apply In_nth_error in Hs. destruct Hs as (i & Hi). exists i. apply Pm. auto. }
  unfold boundary. rewrite (chain_ok r ch k Hord). f_equal. fold (bfold r ch []).
  apply nil_of_no_member. intros w. rewrite memn_bfold. cbn [memn existsb]. rewrite xorb_false_l.
  destruct k as [|k].
  { rewrite (parity_ext _ (fun _ => false)); [apply parity_false|].
    intros s Hs. destruct (Hord s Hs) as (i & As). unfold faces. now rewrite As. }
  destruct (index_of w (simplicesOfOrder r k)) as [i|] eqn:Ew.
  - (* w is the i-th k-simplex: the sum is row i of the sum of the columns named by ch *)
    apply index_of_some in Ew.
    assert (Hi : i < nrows (boundaryOperator r (S k))).
    { assert (Lk : S k < r_nord r).
      { destruct ch as [|s0 ch0]; [|destruct (Hord s0 (or_introl eq_refl)) as (i0 & A0); apply Pm in A0; tauto].
        (* an empty chain: nothing to sum -- any bound will do, take it from w's position *)
        destruct (Nat.lt_ge_cases (S k) (r_nord r)) as [L|L]; [exact L|]. exfalso.
        unfold Z1 in Hin. unfold simplicesOfOrder at 1 in Hin. replace (S k <? r_nord r) with false in Hin by (symmetry; apply Nat.ltb_ge; lia).
        cbn [map] in Hin. unfold reduceB in Hin.
        assert (Hl : forall f x M, snd (reduce (L:=name) f x M []) = []).
        { induction f as [|f IHf]; intros x M; simpl; [reflexivity|]. destruct (find_pivot x M) as [[k0 l0]|]; [|reflexivity].
          unfold reduce_step. cbn [mapi mapi_from swap set_nth nth]. destruct x, l0; simpl; apply IHf. }
        destruct (reduce _ 0 _ []) as [A cls'] eqn:E. pose proof (Hl (min (nrows (boundaryOperator r (S k))) (ncols (boundaryOperator r (S k)))) 0 (rows_of (boundaryOperator r (S k)))) as Hl0.
        rewrite E in Hl0. cbn [snd] in Hl0. subst cls'. rewrite skipn_nil in Hin. destruct Hin. }
      destruct (boundary_shape r (S k) HS Lk) as [_ Hr]. rewrite (Hr ltac:(lia)). simpl. rewrite Nat.sub_0_r.
      apply nth_error_Some. congruence. }
    pose proof (Z1_cycles r (S k) ch (simplicesOfOrder_nodup r (S k) P) (boundary_ncols r (S k) HS) Hin i Hi) as Hz.
    rewrite vsum_parity in Hz. rewrite <- Hz. apply parity_ext. intros s Hs.
    unfold colval. pose proof (Hm s Hs) as Hsn. apply In_nth_error in Hsn. destruct Hsn as (t & Ht).
    rewrite (index_of_nth s _ t (simplicesOfOrder_nodup r (S k) P) Ht).
    rewrite (entry_rows_of _ i t Hi). fold (mentry (boundaryOperator r (S k)) i t).
    apply eq_true_iff_eq. rewrite memn_In. symmetry. exact (boundary_entries r k i t s w HS Ht Ew).
  - (* w is no k-simplex: it is a face of no member *)
    apply index_of_none in Ew. rewrite (parity_ext _ (fun _ => false)); [apply parity_false|].
    intros s Hs. destruct (Hord s Hs) as (j & As). apply memn_false. intros Hf.
    destruct (face_is_simplex r HS s w k j As Hf) as (i & Aw). apply Pm in Aw. destruct Aw as [Lt Hi].
    apply Ew. unfold simplicesOfOrder. apply Nat.ltb_lt in Lt. rewrite Lt. eapply nth_error_In; eauto.
Qed.
