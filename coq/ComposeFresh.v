(* ComposeFresh.v -- compose(): the complex it returns (new, or the caller's target when that target owns its
   dictionaries) owns every one of its dictionaries -- merged ones and handed-over ones alike are new cells of
   that owner -- and no cell of another owner is written, whatever the outcome (C09).  Plain Coq. *)
From Coq Require Import String ZArith Bool Arith List Lia.
From SV Require Import Names NamesFacts ListFacts Rep Fresh Complex Atomic RepInv Homology World WorldProofs ComposeProofs.
Import ListNotations.
Open Scope nat_scope.

Lemma in_assoc_set {B} s (b : B) l x : In x (assoc_set s b l) -> In x l \/ x = (s, b).
Proof.
  induction l as [|[k v] t IH]; simpl.
  - intros [<-|[]]. now right.
  - destruct (name_eqb s k) eqn:E; simpl.
    + intros [<-|H]; [right; apply name_eqb_eq in E; now subst|left; now right].
    + intros [<-|H]; [left; now left|]. destruct (IH H) as [H1|H1]; [left; now right|now right].
Qed.

Definition fresh_state (uid : nat) (hp0 : heap) (acc : heap * rep * res unit) : Prop :=
  let '(hp, d, _) := acc in
  owned d /\ r_uid d = uid /\ forall h, fst h <> uid -> heap_get hp h = heap_get hp0 h.

Lemma compose_step_fresh a c uid hp0 acc s : fresh_state uid hp0 acc -> fresh_state uid hp0 (compose_step a c acc s).
Proof.
  destruct acc as [[hp d] [u|e]]; [|auto]. intros (O & U & Hh). unfold compose_step.
  destruct (c_simplexWithBasis a (basisOf c s) false) as [q|e]; [|simpl; auto].
  assert (Hset : forall h' v, fst h' = uid -> forall h, fst h <> uid -> heap_get (heap_set hp h' v) h = heap_get hp0 h).
  { intros h' v Hh' h Hne. rewrite heap_get_set. destruct (handle_eqb h h') eqn:E; [|now apply Hh].
    unfold handle_eqb in E. apply andb_prop in E. destruct E as [E _]. apply Nat.eqb_eq in E. congruence. }
  destruct (containsSimplex a s).
  - destruct q as [q'|]; [|simpl; auto]. destruct (name_eqb s q'); [|simpl; auto].
    destruct (alloc d) as [d1 h'] eqn:Ea.
    pose proof (alloc_owned d O) as (O1 & Hh' & U1). rewrite Ea in O1, Hh', U1. simpl in O1, Hh', U1.
    simpl. split; [|split].
    + intros s0 h0 Hin. change (r_attr (setAttributes d1 s h')) with (assoc_set s h' (r_attr d1)) in Hin.
      change (r_uid (setAttributes d1 s h')) with (r_uid d1).
      apply in_assoc_set in Hin. destruct Hin as [Hin|Hin]; [eapply O1; eauto|]. injection Hin as _ ->. congruence.
    + change (r_uid (setAttributes d1 s h')) with (r_uid d1). congruence.
    + apply Hset. congruence.
  - destruct q as [q'|]; [simpl; auto|].
    destruct (alloc d) as [d1 h'] eqn:Ea.
    pose proof (alloc_owned d O) as (O1 & Hh' & U1). rewrite Ea in O1, Hh', U1. simpl in O1, Hh', U1.
    destruct (addSimplex d1 (faces c s) (Some s) (Some h')) as [d2 [id|e]] eqn:EA; simpl.
    + split; [|split].
      * eapply addSimplex_owned; [exact O1| |exact EA]. intros h0 [= <-]. congruence.
      * rewrite (addSimplex_uid _ _ _ _ _ _ EA). congruence.
      * apply Hset. congruence.
    + split; [|split].
      * eapply addSimplex_owned; [exact O1| |exact EA]. intros h0 [= <-]. congruence.
      * rewrite (addSimplex_uid _ _ _ _ _ _ EA). congruence.
      * apply Hset. congruence.
Qed.

Lemma compose_fold_fresh a c uid hp0 : forall L acc, fresh_state uid hp0 acc -> fresh_state uid hp0 (fold_left (compose_step a c) L acc).
Proof. induction L as [|s L IH]; intros acc H; simpl; [exact H|]. apply IH. now apply compose_step_fresh. Qed.

Theorem compose_fresh hp a c uid hp' d x : compose hp a c None uid = (hp', d, x) ->
  owned d /\ r_uid d = uid /\ forall h, fst h <> uid -> heap_get hp' h = heap_get hp h.
Proof.
  unfold compose. destruct (copy_new hp (view_of a) uid) as [[hp1 d0] y] eqn:E0.
  destruct (copy_new_fresh hp (view_of a) uid hp1 d0 y E0) as (O & U & Hh).
  destruct y as [[]|e]; [|intros [= <- <- _]; auto].
  rewrite compose_loop_fold. intros H.
  pose proof (compose_fold_fresh a c uid hp (concat (map (simplicesOfOrder c) (seq 0 (r_nord c)))) (hp1, d0, Ok tt)) as F.
  rewrite H in F. apply F. simpl. auto.
Qed.

(* with a target: the target stays the owner of all its dictionaries, cells of other owners are not written *)
Theorem compose_into_fresh hp a c t uid hp' d x : owned t -> compose hp a c (Some t) uid = (hp', d, x) ->
  owned d /\ r_uid d = r_uid t /\ forall h, fst h <> r_uid t -> heap_get hp' h = heap_get hp h.
Proof.
  intros Ot. unfold compose, copy_into.
  destruct (negb (length (intern (map fst (view_of a)) (simplices t false)) =? 0)); [intros [= <- <- _]; auto|].
  destruct (addSimplicesFrom hp t (view_of a) RNone) as [[[hp1 d0] st] y] eqn:E0. unfold addSimplicesFrom in E0.
  destruct (addFrom_loop_owned RNone _ _ _ _ _ _ _ _ _ Ot E0) as (O & U & Hh).
  destruct y as [l|e]; simpl; [|intros [= <- <- _]; auto].
  rewrite compose_loop_fold. intros H.
  pose proof (compose_fold_fresh a c (r_uid t) hp (concat (map (simplicesOfOrder c) (seq 0 (r_nord c)))) (hp1, d0, Ok tt)) as F.
  rewrite H in F. apply F. simpl. auto.
Qed.
