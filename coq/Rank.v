(* Rank.v -- the model of _reduceBoundaries computes the rank over GF(2), as specified by
   Mathematical Components' \rank on 'M['F_2]: every pivot step preserves the rank (row / column
   permutations and additions), the result is the partial identity pid_mx r, hence r = \rank. *)
From mathcomp Require Import all_ssreflect all_fingroup all_algebra.
From Coq Require Import Lia.
From SV Require Import Names Rep Complex Homology ListMat.
Set Implicit Arguments.
Unset Strict Implicit.
Unset Printing Implicit Defensive.
Import GRing.Theory.
Local Open Scope ring_scope.

Definition F2 := 'F_2.
Definition b2f (b : bool) : F2 := b%:R.
Definition mxf (m n : nat) (f : nat -> nat -> bool) : 'M[F2]_(m, n) := \matrix_(i, j) b2f (f i j).

Lemma b2f_xor a b : b2f (xorb a b) = b2f a + b2f b.
Proof. by case: a; case: b; apply/val_inj. Qed.

Lemma eqb_eqn a b : Nat.eqb a b = (a == b).
Proof. by apply/idP/eqP => [/PeanoNat.Nat.eqb_eq|->]; rewrite ?PeanoNat.Nat.eqb_refl. Qed.
Lemma ltb_ltn a b : Nat.ltb a b = (a < b)%N.
Proof. by apply/idP/ltP => /PeanoNat.Nat.ltb_lt. Qed.

(* ---------- rank is invariant under the four elementary operations ---------- *)
Section RankInv.
Variables (m n : nat).
Implicit Types A B : 'M[F2]_(m, n).

Lemma rank_rows_add A B (x : 'I_m) (c : 'I_m -> F2) :
  c x = 0 -> (forall k, row k B = row k A + c k *: row x A) -> \rank B = \rank A.
Proof.
move=> cx H; apply/eqP; rewrite eqn_leq; apply/andP; split; apply: mxrankS; apply/row_subP=> k.
- by rewrite H addmx_sub ?row_sub // scalemx_sub ?row_sub.
- have Hx : row x B = row x A by rewrite H cx scale0r addr0.
  have -> : row k A = row k B - c k *: row x B by rewrite H Hx addrK.
  by rewrite addmx_sub ?row_sub // eqmx_opp scalemx_sub ?row_sub.
Qed.

Lemma rank_rows_perm A B (s : 'S_m) : (forall k, row k B = row (s k) A) -> \rank B = \rank A.
Proof.
move=> H; apply/eqP; rewrite eqn_leq; apply/andP; split; apply: mxrankS; apply/row_subP=> k.
- by rewrite H row_sub.
- by rewrite -[k](permKV s) -H row_sub.
Qed.
End RankInv.

Lemma rank_cols_add m n (A B : 'M[F2]_(m, n)) (x : 'I_n) (c : 'I_n -> F2) :
  c x = 0 -> (forall k, col k B = col k A + c k *: col x A) -> \rank B = \rank A.
Proof.
move=> cx H; rewrite -(mxrank_tr B) -(mxrank_tr A).
apply: (@rank_rows_add _ _ _ _ x c cx) => k.
by rewrite -!tr_col H linearD linearZ.
Qed.

Lemma rank_cols_perm m n (A B : 'M[F2]_(m, n)) (s : 'S_n) :
  (forall k, col k B = col (s k) A) -> \rank B = \rank A.
Proof.
move=> H; rewrite -(mxrank_tr B) -(mxrank_tr A).
by apply: (@rank_rows_perm _ _ _ _ s) => k; rewrite -!tr_col H.
Qed.

Lemma sw_tperm p (a b i : 'I_p) : sw a b i = tperm a b i :> nat.
Proof.
rewrite /sw permE /= !eqb_eqn.
case: (altP (i =P a)) => [->|ia]; first by rewrite eqxx.
rewrite (_ : (nat_of_ord i == nat_of_ord a) = false); last by apply/negbTE.
case: (altP (i =P b)) => [->|ib]; first by rewrite eqxx.
by rewrite (_ : (nat_of_ord i == nat_of_ord b) = false) //; apply/negbTE.
Qed.

(* ---------- one pivot step preserves the rank ---------- *)
Section StepRank.
Variables (m n x k l : nat) (f0 : nat -> nat -> bool).
Hypotheses (Hx : (x < m)%N) (Hk : (k < m)%N) (Hxn : (x < n)%N) (Hl : (l < n)%N).

Definition s1 i j := f0 (sw x k i) j.
Definition s2 i j := s1 i (sw x l j).
Definition s3 i j := if Nat.ltb x i && s2 i x then xorb (s2 i j) (s2 x j) else s2 i j.
Definition s4 i j := if Nat.ltb x j && s3 x j then xorb (s3 i j) (s3 i x) else s3 i j.

Lemma rank_s1 : \rank (mxf m n s1) = \rank (mxf m n f0).
Proof.
apply: (@rank_rows_perm _ _ _ _ (tperm (Ordinal Hx) (Ordinal Hk))) => i.
by apply/rowP => j; rewrite !mxE /s1 -sw_tperm.
Qed.

Lemma rank_s2 : \rank (mxf m n s2) = \rank (mxf m n s1).
Proof.
apply: (@rank_cols_perm _ _ _ _ (tperm (Ordinal Hxn) (Ordinal Hl))) => j.
by apply/colP => i; rewrite !mxE /s2 -sw_tperm.
Qed.

Lemma rank_s3 : \rank (mxf m n s3) = \rank (mxf m n s2).
Proof.
pose c (i : 'I_m) : F2 := b2f (Nat.ltb x i && s2 i x).
apply: (@rank_rows_add _ _ _ _ (Ordinal Hx) c).
- by rewrite /c /= ltb_ltn ltnn.
- move=> i; apply/rowP => j; rewrite !mxE /s3 /c /=.
  case: (Nat.ltb x i && s2 i x); first by rewrite b2f_xor mul1r.
  by rewrite mul0r addr0.
Qed.

Lemma rank_s4 : \rank (mxf m n s4) = \rank (mxf m n s3).
Proof.
pose c (j : 'I_n) : F2 := b2f (Nat.ltb x j && s3 x j).
apply: (@rank_cols_add _ _ _ _ (Ordinal Hxn) c).
- by rewrite /c /= ltb_ltn ltnn.
- move=> j; apply/colP => i; rewrite !mxE /s4 /c /=.
  case: (Nat.ltb x j && s3 x j); first by rewrite b2f_xor mul1r.
  by rewrite mul0r addr0.
Qed.

Lemma rank_step : \rank (mxf m n s4) = \rank (mxf m n f0).
Proof. by rewrite rank_s4 rank_s3 rank_s2 rank_s1. Qed.
End StepRank.

Lemma mxf_ext m n f g : (forall i j, (i < m)%N -> (j < n)%N -> f i j = g i j) -> mxf m n f = mxf m n g.
Proof. by move=> H; apply/matrixP => i j; rewrite !mxE H. Qed.

(* a matrix in block form whose remaining block is zero is the partial identity *)
Lemma mxf_pid m n r f : block m n r f ->
  (forall i j, (i < m)%coq_nat -> (j < n)%coq_nat -> (r <= i)%coq_nat -> (r <= j)%coq_nat -> f i j = false) ->
  mxf m n f = pid_mx r.
Proof.
move=> Hb Hz; apply/matrixP => i j; rewrite !mxE.
have Hi : (i < m)%coq_nat by apply/ltP. have Hj : (j < n)%coq_nat by apply/ltP.
case: (ltnP i r) => ir.
- rewrite Hb //; last by left; apply/ltP.
  by rewrite eqb_eqn andbT.
- rewrite andbF. case: (ltnP j r) => jr.
  + rewrite Hb //; last by right; apply/ltP.
    rewrite eqb_eqn. have -> : (nat_of_ord i == nat_of_ord j) = false; last by [].
    by apply/negbTE; rewrite neq_ltn (leq_trans jr ir) orbT.
  + by rewrite Hz //; apply/leP.
Qed.

(* ---------- the reduction ---------- *)
Arguments reduce_step : simpl never.

Section Reduce.
Variables (rb cb : nat) (L : Type).

Lemma reduce_S fuel x M (cls : list (list L)) :
  reduce (S fuel) x M cls =
  match find_pivot x M with
  | None => (M, cls)
  | Some (k, l) => let '(M', cls') := reduce_step x k l M cls in reduce fuel (S x) M' cls'
  end.
Proof. by []. Qed.

Lemma reduce_inv fuel : forall x M (cls : list (list L)),
  wfm rb cb M -> block rb cb x (entry M) -> (x + fuel)%coq_nat = Nat.min rb cb ->
  let D := fst (reduce fuel x M cls) in
  wfm rb cb D /\ \rank (mxf rb cb (entry D)) = \rank (mxf rb cb (entry M)) /\
  exists r, (r <= Nat.min rb cb)%coq_nat /\ block rb cb r (entry D) /\
    (forall i j, (i < rb)%coq_nat -> (j < cb)%coq_nat -> (r <= i)%coq_nat -> (r <= j)%coq_nat -> entry D i j = false).
Proof.
elim: fuel => [|fuel IH] x M cls HM Hb Hf; last rewrite reduce_S.
- rewrite /=; split=> //; split=> //; exists x; split; first by lia.
  split=> // i j Hi Hj Hxi Hxj; lia.
- case Hp: (find_pivot x M) => [[k l]|]; last first.
  + split=> //; split=> //; exists x; split; first by lia.
    split=> // i j Hi Hj Hxi Hxj. exact: (@find_pivot_none rb cb x M HM Hp i j Hi Hj Hxi Hxj).
  + have [Hxk [Hk [Hxl [Hl Hkl]]]] := @find_pivot_some rb cb x M k l HM Hp.
    have Hx : (x < rb)%coq_nat by lia. have Hxc : (x < cb)%coq_nat by lia.
    case Hs: (reduce_step x k l M cls) => [M' cls'].
    have HM' : wfm rb cb M'.
      have := @step_wfm rb cb x k l M HM Hx Hk Hxc Hl L cls. by rewrite Hs.
    have He : forall i j, (i < rb)%coq_nat -> (j < cb)%coq_nat -> entry M' i j = s4 x k l (entry M) i j.
      move=> i j Hi Hj. have := @step_entries rb cb x k l M HM Hx Hk Hxc Hl L cls i j Hi Hj. by rewrite Hs.
    have Hb' : block rb cb (S x) (entry M').
      move=> i j Hi Hj Hor. rewrite He //.
      exact: (@f4_block rb cb x k l (entry M) Hb Hxk Hk Hxl Hl Hkl i j Hi Hj Hor).
    have Hr : \rank (mxf rb cb (entry M')) = \rank (mxf rb cb (entry M)).
      rewrite (@mxf_ext _ _ (entry M') (s4 x k l (entry M))); last first.
        by move=> i j /ltP Hi /ltP Hj; apply: He.
      by apply: rank_step; apply/ltP.
    have Hf' : (S x + fuel)%coq_nat = Nat.min rb cb by lia.
    have [HD [HrD Hex]] := IH (S x) M' cls' HM' Hb' Hf'.
    split; first exact: HD.
    split; last exact: Hex.
    by rewrite -Hr; exact: HrD.
Qed.

(* C06 / C07: for every 0/1 matrix of any shape, the reduced matrix is the partial identity of
   size r, and r is the GF(2) rank of the input *)
Theorem reduce_rank M (cls : list (list L)) : wfm rb cb M ->
  let D := fst (reduceB rb cb M cls) in
  let r := \rank (mxf rb cb (entry M)) in
  wfm rb cb D /\ forall i j, (i < rb)%coq_nat -> (j < cb)%coq_nat -> entry D i j = (i == j) && (i < r)%N.
Proof.
move=> HM /=.
have Hb0 : block rb cb 0 (entry M) by move=> i j _ _ [] H; lia.
have Hf0 : (0 + Nat.min rb cb)%coq_nat = Nat.min rb cb by [].
have [HD [Hr [r [Hrle [Hb Hz]]]]] := reduce_inv cls HM Hb0 Hf0.
split=> // i j Hi Hj.
have Hpid := mxf_pid Hb Hz.
have Hrank : \rank (mxf rb cb (entry M)) = r.
  rewrite -Hr Hpid rank_pid_mx //; apply/leP; lia.
rewrite Hrank.
have := congr1 (fun A : 'M[F2]_(rb, cb) => A (Ordinal (introT ltP Hi)) (Ordinal (introT ltP Hj))) Hpid.
rewrite !mxE /=.
case: (entry _ i j); case: ((i == j) && (i < r)%N) => //= H; by move/(congr1 val): H.
Qed.
End Reduce.
