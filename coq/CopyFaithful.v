(* CopyFaithful.v -- copy() / addSimplicesFrom without a renaming is faithful (C09, C02): the result
   contains every simplex of the source view under its name, with the order and exactly the faces
   the view gives it; what the target held before keeps order, position, faces and basis.
   Plain Coq, on top of AddEffect.v. *)
From Coq Require Import String ZArith Bool Arith List Lia.
From SV Require Import Names NamesFacts ListFacts Rep Fresh Complex Atomic RepInv Reach Shapes ShapesReach Incidence AddEffect.
Import ListNotations.
Open Scope nat_scope.

Lemma rl_map_none st l : rl_map RNone st l = (st, l).
Proof. induction l as [|x t IH]; simpl; [reflexivity|]. now rewrite IH. Qed.

Lemma sinv_alloc r : sinv r -> sinv (fst (alloc r)).
Proof. intros H. eapply sinv_same_obs; [apply same_obs_alloc | exact H]. Qed.

Theorem bulk_add_faithful : forall (src : srcview) hp r st ns hp' r' st' ns',
  sinv r -> addFrom_loop hp r RNone st src ns = (hp', r', st', Ok ns') ->
  sinv r' /\
  (forall s fs h, In (s, (fs, h)) src ->
     containsSimplex r' s = true /\ orderOf r' s = Ok (length fs - 1) /\ (forall t, In t (faces r' s) <-> In t fs)) /\
  (forall s, containsSimplex r s = true ->
     containsSimplex r' s = true /\ orderOf r' s = orderOf r s /\ indexOf r' s = indexOf r s /\
     faces r' s = faces r s /\ basisOf r' s = basisOf r s) /\
  (forall s, containsSimplex r' s = containsSimplex r s || memn s (map fst src)).
Proof.
  induction src as [|[s [fs h]] rest IH]; intros hp r st ns hp' r' st' ns' Hinv H; cbn [addFrom_loop] in H.
  - injection H as _ <- _ _. split; [exact Hinv|]. split; [intros s fs h []|]. split.
    + intros s Hs. repeat split; auto.
    + intros s. simpl. now rewrite orb_false_r.
  - cbn [rl_apply] in H. rewrite name_eqb_refl in H. simpl negb in H. cbv iota in H. simpl andb in H. cbv iota in H.
    rewrite rl_map_none in H.
    destruct (alloc r) as [r1 h'] eqn:Ea.
    assert (Hs1 : same_obs r r1) by (pose proof (same_obs_alloc r) as X; now rewrite Ea in X).
    assert (Hinv1 : sinv r1) by (eapply sinv_same_obs; eauto).
    destruct (same_obs_queries r r1 Hs1) as (Qo & Qi & Qf & _ & Qb & Qc & _).
    destruct (addSimplex r1 fs (Some s) (Some h')) as [r2 [id|e]] eqn:E; [|discriminate].
    assert (Hid : id = s).
    { unfold addSimplex in E. destruct ((length fs - 1 =? 0) && negb (length fs =? 0)); [discriminate|].
      destruct (containsSimplex r1 s); [discriminate|]. cbn [alloc] in E.
      destruct (negb (nodupb fs)); [discriminate|]. destruct (check_faces r1 (length fs - 1) fs); [|discriminate].
      destruct (r_nord r1 <=? length fs - 1).
      - destruct (r_nord r1 <? length fs - 1); [discriminate|]. destruct (length fs - 1); cbn [fst snd] in E; inversion E; reflexivity.
      - destruct (0 <? length fs - 1).
        + destruct (simplexWithFaces r1 fs) as [[?|]|?]; try discriminate. destruct (length fs - 1); inversion E; reflexivity.
        + destruct (length fs - 1); inversion E; reflexivity. }
    subst id.
    destruct (addSimplex_effect r1 fs (Some s) (Some h') r2 s Hinv1 E) as (Hnew & Hnd & Ho & Hf & Hold & Hall).
    assert (Hinv2 : sinv r2) by (eapply addSimplex_sinv; eauto).
    destruct (IH _ _ _ _ _ _ _ _ Hinv2 H) as (Hinv' & Hsrc & Hkeep & Hcont).
    split; [exact Hinv'|]. split; [|split].
    + intros s0 fs0 h0 [Heq|Hin].
      * injection Heq as <- <- <-.
        assert (Hc2 : containsSimplex r2 s = true) by (rewrite Hall, name_eqb_refl; apply orb_true_r).
        destruct (Hkeep s Hc2) as (C' & O' & _ & F' & _). split; [exact C'|]. split; [now rewrite O'|]. intros t. now rewrite F'.
      * apply (Hsrc s0 fs0 h0 Hin).
    + intros s0 Hs0. assert (Hc1 : containsSimplex r1 s0 = true) by (now rewrite Qc).
      destruct (Hold s0 Hc1) as (O2 & I2 & F2 & B2).
      assert (Hc2 : containsSimplex r2 s0 = true) by (rewrite Hall, Hc1; reflexivity).
      destruct (Hkeep s0 Hc2) as (C' & O' & I' & F' & B').
      split; [exact C'|]. rewrite O', I', F', B', O2, I2, F2, B2, Qo, Qi, Qf, Qb. repeat split; reflexivity.
    + intros s0. rewrite Hcont, Hall, Qc. cbn [map fst memn existsb]. unfold memn. simpl.
      rewrite (name_eqb_sym s0 s). now rewrite orb_assoc.
Qed.

(* copy(): the new complex has exactly the simplices of the source, each with exactly its faces *)
Theorem copy_faithful hp src uid hp' r' :
  copy_new hp (view_of src) uid = (hp', r', Ok tt) ->
  sinv r' /\
  (forall s, containsSimplex r' s = memn s (simplices src false)) /\
  (forall s, In s (simplices src false) ->
     orderOf r' s = Ok (length (faces src s) - 1) /\ forall t, In t (faces r' s) <-> In t (faces src s)).
Proof.
  unfold copy_new, addSimplicesFrom.
  destruct (addFrom_loop hp (empty_rep uid) RNone rl0 (view_of src) []) as [[[hp1 r1] st1] [ns|e]] eqn:E; [|discriminate].
  intros H. injection H as <- <-.
  destruct (bulk_add_faithful _ _ _ _ _ _ _ _ _ (sinv_empty uid) E) as (Hinv & Hsrc & _ & Hcont).
  split; [exact Hinv|]. split.
  - intros s. rewrite Hcont. unfold view_of. rewrite map_map. simpl. rewrite map_id. reflexivity.
  - intros s Hs.
    assert (Hin : In (s, (faces src s, match assoc s (r_attr src) with Some h => h | None => (0, 0) end)) (view_of src)).
    { unfold view_of. apply in_map_iff. exists s. split; [reflexivity | exact Hs]. }
    destruct (Hsrc _ _ _ Hin) as (_ & Ho & Hf). split; assumption.
Qed.

(* ---------- C10: a copy equals its source ---------- *)
From SV Require Import Cmp.

Lemma In_simplices_iff r s : pinv r -> (In s (simplices r false) <-> containsSimplex r s = true).
Proof.
  intros P. rewrite (contains_iff_listed r s P), (simplices_by_order r P). split.
  - intros H. apply in_concat in H. destruct H as (l & Hl & Hs). apply in_map_iff in Hl. destruct Hl as (k & <- & _). eauto.
  - intros (k & Hk). apply in_concat. exists (simplicesOfOrder r k). split; [|exact Hk].
    apply in_map_iff. exists k. split; [reflexivity|]. apply in_seq.
    unfold simplicesOfOrder in Hk. destruct (k <? r_nord r) eqn:E; [|destruct Hk]. apply Nat.ltb_lt in E.
    destruct P as [_ _ _ L]. lia.
Qed.

Lemma order_of_listed r k i : pinv r -> In i (simplicesOfOrder r k) -> orderOf r i = Ok k.
Proof.
  intros P H. apply In_nth_error in H. destruct H as (j & Hj).
  apply (orderOf_indexOf_position r i k j P) in Hj. tauto.
Qed.

(* the source has, for every simplex of order k, a list of faces of length k+1 (k >= 1) or none
   (k = 0): part of C01's well-formedness, assumed here *)
Definition face_counts (a : rep) : Prop :=
  forall k i, In i (simplicesOfOrder a k) -> length (faces a i) - 1 = k.

Theorem copy_equals_source hp a uid hp' c : pinv a -> face_counts a ->
  copy_new hp (view_of a) uid = (hp', c, Ok tt) -> c_eq a c = true.
Proof.
  intros Pa Hfc H. destruct (copy_faithful hp a uid hp' c H) as (Hinv & Hcont & Hsrc).
  pose proof (s_p c Hinv) as Pc.
  assert (Hle1 : c_le a c = true).
  { apply le_iff. intros k i Hk Hi.
    assert (Hin : In i (simplices a false)) by (apply In_simplices_iff; [exact Pa|]; apply contains_iff_listed; eauto).
    destruct (Hsrc i Hin) as [Ho Hf]. split; [rewrite Hcont; now apply memn_In|].
    split; [rewrite Ho; f_equal; now apply Hfc|]. intros t Ht. now apply Hf. }
  assert (Hle2 : c_le c a = true).
  { apply le_iff. intros k i Hk Hi.
    assert (Hc : containsSimplex c i = true) by (apply contains_iff_listed; eauto).
    rewrite Hcont in Hc. apply memn_In in Hc. destruct (Hsrc i Hc) as [Ho Hf].
    assert (Hca : containsSimplex a i = true) by (now apply In_simplices_iff).
    split; [exact Hca|]. split.
    - rewrite (order_of_listed c k i Pc Hi) in Ho. injection Ho as ->.
      apply (contains_iff_listed a i Pa) in Hca. destruct Hca as (k2 & Hk2).
      rewrite (order_of_listed a k2 i Pa Hk2). f_equal. symmetry. now apply Hfc.
    - intros t Ht. now apply Hf. }
  unfold c_eq. rewrite Hle1. simpl.
  apply Nat.eqb_eq. rewrite !numberOfSimplices_length by assumption.
  assert (I1 : incl (simplices a false) (simplices c false)).
  { intros s Hs. apply In_simplices_iff; [exact Pc|]. rewrite Hcont. now apply memn_In. }
  assert (I2 : incl (simplices c false) (simplices a false)).
  { intros s Hs. apply In_simplices_iff in Hs; [|exact Pc]. rewrite Hcont in Hs. now apply memn_In. }
  apply Nat.le_antisymm; apply NoDup_incl_length; auto using simplices_nodup.
Qed.
