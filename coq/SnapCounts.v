(* SnapCounts.v -- C14: the per-order counts a filtration reports at its index (numberOfSimplicesOfOrder: the counts
   of the visible simplices per order with trailing zeros dropped) are the list the snapshot reports.  The snapshot's
   top order is populated (TopOrder), so its own list has no trailing zero.  Plain Coq. *)
From Coq Require Import String ZArith Bool Arith List Lia.
From SV Require Import Names NamesFacts ListFacts Rep Fresh Complex Atomic RepInv Reach ReachGen2 Shapes Incidence AddEffect
                       Closed ClosedReach Homology Filtration FiltProofs Listing TopOrder FlagSound.
Import ListNotations.
Open Scope nat_scope.

Lemma strip_zeros_app_zeros l n : strip_zeros (l ++ repeat 0 n) = strip_zeros l.
Proof.
  induction l as [|x l IH]; simpl.
  - induction n as [|n IHn]; simpl; [reflexivity|]. now rewrite IHn.
  - now rewrite IH.
Qed.

Lemma strip_zeros_id l : (l = [] \/ last l 0 <> 0) -> strip_zeros l = l.
Proof.
  induction l as [|x l IH]; intros H; simpl; [reflexivity|].
  destruct l as [|y l'].
  - simpl. destruct H as [H|H]; [discriminate|]. simpl in H. destruct (x =? 0) eqn:E; [apply Nat.eqb_eq in E; congruence|reflexivity].
  - rewrite IH.
    + reflexivity.
    + right. destruct H as [H|H]; [discriminate|]. exact H.
Qed.

Lemma copy_new_tcinv hp src uid hp' c x : copy_new hp src uid = (hp', c, x) -> tcinv c.
Proof.
  intros H. eapply (ReachGen2.copy_new_I tcinv);
    eauto using tcinv_same_obs, tcinv_empty, addSimplex_tcinv, relabelSimplex_tcinv, deleteSimplex_tcinv.
Qed.

Theorem snap_counts_per_order hp f uid hp' c : cinv (f_rep f) -> copy_new hp (f_view f) uid = (hp', c, Ok tt) ->
  numberOfSimplicesOfOrder c = f_numberOfSimplicesOfOrder f.
Proof.
  intros Hc H. unfold numberOfSimplicesOfOrder, f_numberOfSimplicesOfOrder. set (fr := f_rep f).
  rewrite (map_ext (fun k => length (filter (f_contains f) (simplicesOfOrder fr k))) (fun k => length (simplicesOfOrder c k)))
    by (intros k; now rewrite (snap_listing_per_order hp f uid hp' c Hc H)).
  set (g := fun k => length (simplicesOfOrder c k)).
  pose proof (copy_new_tcinv _ _ _ _ _ _ H) as [Cc Tc]. pose proof (s_p c (c_s c Cc)) as Pc.
  assert (G2 : forall j, r_nord fr <= j -> g j = 0).
  { intros j Hj. unfold g. rewrite (snap_listing_per_order hp f uid hp' c Hc H). unfold simplicesOfOrder.
    fold fr. replace (j <? r_nord fr) with false by (symmetry; apply Nat.ltb_ge; lia). reflexivity. }
  (* the top order of the snapshot holds a simplex *)
  assert (Top : forall k, S k = r_nord c -> g k <> 0).
  { intros k Hk. destruct (Tc k Hk) as (s & j & As). pose proof (order_listed c s k j Pc As) as Hin.
    unfold g. destruct (simplicesOfOrder c k); [destruct Hin|simpl; lia]. }
  assert (Le : r_nord c <= r_nord fr).
  { destruct (r_nord c) as [|k] eqn:E; [lia|]. destruct (Nat.lt_ge_cases k (r_nord fr)) as [Hl|Hl]; [lia|].
    exfalso. apply (Top k eq_refl). now apply G2. }
  replace (r_nord fr) with (r_nord c + (r_nord fr - r_nord c)) by lia.
  rewrite seq_app, map_app.
  replace (map g (seq (0 + r_nord c) (r_nord fr - r_nord c))) with (repeat 0 (r_nord fr - r_nord c)).
  2: { symmetry. generalize (r_nord fr - r_nord c). intros n. simpl.
       assert (X : forall m st, r_nord c <= st -> map g (seq st m) = repeat 0 m).
       { induction m as [|m IH]; intros st Hst; simpl; [reflexivity|]. rewrite IH by lia. f_equal.
         unfold g, simplicesOfOrder. replace (st <? r_nord c) with false by (symmetry; apply Nat.ltb_ge; lia). reflexivity. }
       apply X. lia. }
  rewrite strip_zeros_app_zeros. symmetry. apply strip_zeros_id.
  destruct (r_nord c) as [|k] eqn:E; [now left|right].
  replace (S k) with (k + 1) by lia. rewrite seq_app, map_app. simpl. rewrite last_last. apply Top. lia.
Qed.
