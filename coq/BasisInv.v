(* BasisInv.v -- "the basis of a simplex is the set of points in its closure" (C03) for every
   history of public operations: a point is its own basis, and the basis of a higher simplex is
   the union of the bases of its faces.  Plain Coq. *)
From Coq Require Import String ZArith Bool Arith List Lia.
From SV Require Import Names NamesFacts ListFacts Rep Fresh Complex Atomic RepInv Reach ReachGen Shapes Incidence AddEffect
                       DelEffect StarOrder Closed ReachGen2 ClosedReach RelabelProofs RelabelAll Duality.
From SV Require Import AddBasis DelBasis.
Import ListNotations.
Open Scope nat_scope.

Definition binv (r : rep) : Prop :=
  forall t k j, assoc t (r_simp r) = Some (k, j) ->
  (k = 0 -> basisOf r t = [t]) /\
  (1 <= k -> forall p, In p (basisOf r t) <-> exists u, In u (faces r t) /\ In p (basisOf r u)).

Record bcinv (r : rep) : Prop := { b_c : cinv r; b_b : binv r }.

Lemma bcinv_empty uid : bcinv (empty_rep uid).
Proof. split; [apply cinv_empty|]. intros t k j H. discriminate. Qed.

Lemma bcinv_same_obs r r' : same_obs r r' -> bcinv r -> bcinv r'.
Proof.
  intros Hs [C B]. split; [eapply cinv_same_obs; eauto|].
  destruct (same_obs_queries r r' Hs) as (_ & _ & Qf & _ & Qb & _). pose proof Hs as (_ & _ & Hsimp & _).
  intros t k j H. rewrite Hsimp in H. destruct (B t k j H) as [B0 B1]. split.
  - intros Hk. rewrite Qb. auto.
  - intros Hk p. rewrite Qb, Qf. rewrite (B1 Hk p). split; intros (u & Hu & Hp); exists u; split; auto; now rewrite ?Qb in *.
Qed.

Lemma basis_nodup r t : pinv r -> NoDup (basisOf r t).
Proof.
  intros P. unfold basisOf. destruct (assoc t (r_simp r)) as [[k j]|] eqn:At; [|constructor].
  apply NoDup_names_of_col. destruct P as [K Pm St L]. destruct (proj1 (Pm t k j) At) as [Hk _].
  apply pinv_nodup_order; [constructor; auto | lia].
Qed.

Lemma singleton_list (l : list name) x : NoDup l -> (forall p, In p l <-> p = x) -> l = [x].
Proof.
  intros Hnd H. destruct l as [|a l]; [exfalso; apply (proj2 (H x) eq_refl)|].
  assert (a = x) by (apply H; now left). subst a. destruct l as [|b l]; [reflexivity|].
  assert (b = x) by (apply H; right; now left). subst b. inversion Hnd as [|y ys Hy _]; subst. exfalso. apply Hy. now left.
Qed.

Theorem addSimplex_bcinv r fs id attr r' x : bcinv r -> addSimplex r fs id attr = (r', x) -> bcinv r'.
Proof.
  intros [C B] H. destruct x as [n|e].
  2: { apply addSimplex_atomic in H. destruct H as [Hs _]. eapply bcinv_same_obs; eauto. split; auto. }
  pose proof (c_s r C) as HS.
  split; [eapply addSimplex_cinv; eauto|].
  destruct (addSimplex_effect r fs id attr r' n HS H) as (Hnew & Hnd & Ho & Hf & Hold & Hall).
  pose proof H as H2. apply addSimplex_eq2 in H2. destruct H2 as (r2 & h & Hs & Hc2 & _ & Hchk & Hk0 & Hk & Er').
  assert (Hinv2 : sinv r2) by (eapply sinv_same_obs; eauto).
  destruct (same_obs_queries r r2 Hs) as (_ & _ & _ & _ & Qb & Qc & _).
  intros t k j At.
  assert (Hc' : containsSimplex r' t = true) by (unfold containsSimplex; now rewrite At).
  rewrite Hall in Hc'. destruct (name_eqb_spec t n) as [->|Hne].
  - (* the new simplex *)
    unfold orderOf in Ho. rewrite At in Ho. injection Ho as Ho. split.
    + intros ->. assert (fs = []) by (apply Hk0; lia). subst fs. rewrite Er'. simpl length. simpl Nat.sub.
      apply (v_new_basis r2 n h Hinv2 Hc2).
    + intros H1 p. destruct (length fs - 1) as [|k'] eqn:Ek; [lia|].
      rewrite Er'. rewrite add_hi_eq.
      rewrite (hi_new_basis r2 fs n h (S k') k' Hinv2 eq_refl ltac:(lia) Hc2 p).
      rewrite <- add_hi_eq, <- Er'.
      split; intros (f & Hfin & Hp).
      * exists f. split; [now apply Hf|].
        assert (Hcf : containsSimplex r f = true).
        { destruct (check_faces_ok_orders r2 _ fs Hchk f Hfin) as (fo & fi & Af & _).
          rewrite <- Qc. unfold containsSimplex. now rewrite Af. }
        destruct (Hold f Hcf) as (_ & _ & _ & Bf). rewrite Bf, <- Qb. exact Hp.
      * apply Hf in Hfin. exists f. split; [exact Hfin|].
        assert (Hcf : containsSimplex r f = true).
        { destruct (check_faces_ok_orders r2 _ fs Hchk f Hfin) as (fo & fi & Af & _).
          rewrite <- Qc. unfold containsSimplex. now rewrite Af. }
        destruct (Hold f Hcf) as (_ & _ & _ & Bf). rewrite Bf, <- Qb in Hp. exact Hp.
  - (* an older simplex: nothing it refers to has changed *)
    rewrite orb_false_r in Hc'. destruct (Hold t Hc') as (O & I & Fa & Ba).
    unfold orderOf, indexOf in O, I. rewrite At in O, I.
    destruct (assoc t (r_simp r)) as [[k2 i2]|] eqn:A2; [|discriminate]. injection O as <-. injection I as <-.
    destruct (B t k j A2) as [B0 B1]. split.
    + intros Hk0'. rewrite Ba. auto.
    + intros H1 p. rewrite Ba, Fa, (B1 H1 p). split; intros (u & Hu & Hp); exists u; split; auto.
      * assert (Hcu : containsSimplex r u = true).
        { destruct k as [|k']; [lia|]. destruct (face_is_simplex r HS t u k' j A2 Hu) as (iu & Au). unfold containsSimplex. now rewrite Au. }
        destruct (Hold u Hcu) as (_ & _ & _ & Bu). now rewrite Bu.
      * assert (Hcu : containsSimplex r u = true).
        { destruct k as [|k']; [lia|]. destruct (face_is_simplex r HS t u k' j A2 Hu) as (iu & Au). unfold containsSimplex. now rewrite Au. }
        destruct (Hold u Hcu) as (_ & _ & _ & Bu). now rewrite Bu in Hp.
Qed.

Theorem relabelSimplex_bcinv r s q r' x : bcinv r -> relabelSimplex r s q = (r', x) -> bcinv r'.
Proof.
  intros [C B] H. destruct x as [[]|e].
  2: { apply relabelSimplex_atomic in H. destruct H as [-> _]. split; auto. }
  pose proof (c_s r C) as HS. pose proof (s_p r HS) as P.
  assert (C' : cinv r') by (eapply relabelSimplex_cinv; eauto). split; [exact C'|].
  pose proof (s_p r' (c_s r' C')) as P'.
  destruct (relabelSimplex_carries r s q r' P H) as (Eb & Es & En & Ei & _).
  assert (Hren : renamed_by (ren1 s q) r r') by (repeat split; auto).
  pose proof P as [K Pm St L]. pose proof P' as [K' Pm' St' L'].
  intros t k j At. destruct (proj1 (Pm' t k j) At) as [Hk Hj].
  rewrite Ei, nth_error_map in Hj. destruct (nth_error (idxk r k) j) as [t0|] eqn:E0; [|discriminate].
  simpl in Hj. injection Hj as <-.
  assert (A0 : assoc t0 (r_simp r) = Some (k, j)) by (apply Pm; split; [lia | exact E0]).
  destruct (renamed_structure (ren1 s q) r r' P P' Hren t0 k j A0) as (_ & Fa & _ & Ba).
  destruct (B t0 k j A0) as [B0 B1]. split.
  - intros Hk0. rewrite Ba, (B0 Hk0). reflexivity.
  - intros H1 p. rewrite Ba, Fa, in_map_iff. split.
    + intros (p0 & <- & Hp0). apply (B1 H1) in Hp0. destruct Hp0 as (u & Hu & Hp0).
      exists (ren1 s q u). split; [apply in_map; exact Hu|].
      destruct k as [|k']; [lia|]. destruct (face_is_simplex r HS t0 u k' j A0 Hu) as (iu & Au).
      destruct (renamed_structure (ren1 s q) r r' P P' Hren u k' iu Au) as (_ & _ & _ & Bu). rewrite Bu. now apply in_map.
    + intros (u' & Hu' & Hp). apply in_map_iff in Hu'. destruct Hu' as (u & <- & Hu).
      destruct k as [|k']; [lia|]. destruct (face_is_simplex r HS t0 u k' j A0 Hu) as (iu & Au).
      destruct (renamed_structure (ren1 s q) r r' P P' Hren u k' iu Au) as (_ & _ & _ & Bu). rewrite Bu in Hp.
      apply in_map_iff in Hp. destruct Hp as (p0 & <- & Hp0). exists p0. split; [reflexivity|].
      apply (B1 H1). eauto.
Qed.

Theorem forceDelete_bcinv r s r' x : bcinv r -> cofaces r s = [] -> forceDeleteSimplex r s = (r', x) -> bcinv r'.
Proof.
  intros [C B] Hco H. destruct x as [[]|e].
  2: { apply forceDeleteSimplex_atomic in H. destruct H as [-> _]. split; auto. }
  pose proof (c_s r C) as HS.
  split; [eapply forceDelete_cinv; eauto|].
  destruct (assoc s (r_simp r)) as [[k i]|] eqn:As; [|unfold forceDeleteSimplex in H; rewrite As in H; discriminate].
  assert (Er : r' = fst (forceDeleteSimplex r s)) by (now rewrite H). subst r'.
  pose proof (d_sinv r s k i HS As) as HS'.
  intros t kt' j At.
  assert (Hc' : containsSimplex (fst (forceDeleteSimplex r s)) t = true) by (unfold containsSimplex; now rewrite At).
  destruct (d_sub r s k i HS As t Hc') as [Hc Hne].
  unfold containsSimplex in Hc. destruct (assoc t (r_simp r)) as [[kt it]|] eqn:A0; [|discriminate].
  destruct (d_pos r s k i HS As t kt it Hne A0) as (_ & At' & _). rewrite At in At'. injection At' as <- _.
  pose proof (d_basis r s k i HS As t kt' it Hne A0) as Hbt.
  destruct (d_faces r s k i HS As t kt' it Hne A0) as [_ Hsame].
  assert (Hns : ~ In s (faces r t)).
  { intros Hin. apply (cofaces_inverse_of_faces r HS t s) in Hin. rewrite Hco in Hin. destruct Hin. }
  destruct (B t kt' it A0) as [B0 B1]. split.
  - intros Hk0. apply singleton_list; [apply basis_nodup; exact (s_p _ HS')|].
    intros p. rewrite Hbt, (B0 Hk0). simpl. split; [intros [[<-|[]] _]; reflexivity | intros ->; split; [now left | exact Hne]].
  - intros H1 p. rewrite Hbt, (Hsame Hns), (B1 H1 p). split.
    + intros ((u & Hu & Hp) & Hps). exists u. split; [exact Hu|].
      assert (Hus : u <> s) by (intros ->; contradiction).
      destruct kt' as [|k']; [lia|]. destruct (face_is_simplex r HS t u k' it A0 Hu) as (iu & Au).
      apply (d_basis r s k i HS As u k' iu Hus Au). split; assumption.
    + intros (u & Hu & Hp).
      assert (Hus : u <> s) by (intros ->; contradiction).
      destruct kt' as [|k']; [lia|]. destruct (face_is_simplex r HS t u k' it A0 Hu) as (iu & Au).
      apply (d_basis r s k i HS As u k' iu Hus Au) in Hp. destruct Hp as [Hp Hps]. split; [eauto | exact Hps].
Qed.

Lemma fold_delete_bcinv : forall (L : list name) rc,
  bcinv rc -> NoDup L -> (forall t, In t L -> containsSimplex rc t = true) ->
  (forall i t u, nth_error L i = Some t -> In u (cofaces rc t) -> exists j, j < i /\ nth_error L j = Some u) ->
  forall r' x, fold_left del_step L (rc, Ok tt) = (r', x) -> bcinv r'.
Proof.
  induction L as [|t L IH]; intros rc Hc Hnd Hin Hco r' x H; simpl in H.
  - now injection H as <- _.
  - inversion Hnd as [|y ys Hy Hys]; subst.
    assert (Hco0 : cofaces rc t = []).
    { destruct (cofaces rc t) as [|u l] eqn:E; [reflexivity|]. exfalso.
      destruct (Hco 0 t u eq_refl) as (j & Hj & _); [rewrite E; now left | lia]. }
    assert (Hct : containsSimplex rc t = true) by (apply Hin; now left).
    unfold containsSimplex in Hct. destruct (assoc t (r_simp rc)) as [[k i]|] eqn:At; [|discriminate].
    pose proof (del_ok rc t k i At) as Hok. rewrite Hok in H.
    set (r1 := fst (forceDeleteSimplex rc t)) in *.
    pose proof (c_s rc (b_c rc Hc)) as HSc.
    assert (Hc1 : bcinv r1) by (apply (forceDelete_bcinv rc t r1 (Ok tt) Hc Hco0 Hok)).
    refine (IH r1 Hc1 Hys _ _ r' x H).
    + intros t' Ht'. assert (Hne : t' <> t) by (intros ->; contradiction).
      assert (Hc' : containsSimplex rc t' = true) by (apply Hin; now right).
      unfold containsSimplex in Hc'. destruct (assoc t' (r_simp rc)) as [[k2 i2]|] eqn:A2; [|discriminate].
      destruct (d_pos rc t k i HSc At t' k2 i2 Hne A2) as (_ & A' & _).
      unfold containsSimplex. fold r1 in A'. now rewrite A'.
    + intros i' t' u Hi' Hu. assert (Ht' : In t' L) by (eapply nth_error_In; eauto).
      assert (Hne : t' <> t) by (intros ->; contradiction).
      assert (Hc' : containsSimplex rc t' = true) by (apply Hin; now right).
      apply (d_cofaces rc t k i HSc At t' Hne Hc' u) in Hu. destruct Hu as [Hu Hut].
      destruct (Hco (S i') t' u Hi' Hu) as (j & Hj & Hju). destruct j as [|j].
      * simpl in Hju. congruence.
      * exists j. split; [lia | exact Hju].
Qed.

Theorem deleteSimplex_bcinv r s r' x : bcinv r -> deleteSimplex r s = (r', x) -> bcinv r'.
Proof.
  intros Hc H. unfold deleteSimplex in H.
  destruct (partOf r s true false) as [L|e] eqn:EP; [|now injection H as <- _].
  assert (Hk : exists k is, assoc s (r_simp r) = Some (k, is)).
  { unfold partOf, orderOf in EP. destruct (assoc s (r_simp r)) as [[k is]|]; [eauto | discriminate]. }
  destruct Hk as (k & is & As).
  destruct (star_positions r (c_s r (b_c r Hc)) s k is L As EP) as (Hnd & Hin & Hpos).
  exact (fold_delete_bcinv L r Hc Hnd Hin Hpos r' x H).
Qed.

(* ---------- every public operation, every history ---------- *)
Local Hint Resolve bcinv_same_obs bcinv_empty addSimplex_bcinv relabelSimplex_bcinv deleteSimplex_bcinv : bcinv.
Ltac instb L := intros; eapply (L bcinv); eauto with bcinv.

Lemma pstep_bcinv r o : bcinv r -> bcinv (pstep r o).
Proof.
  intros H. destruct o; simpl.
  - destruct (addSimplex r fs id attr) eqn:E. eapply addSimplex_bcinv; eauto.
  - destruct (c_addSimplexWithBasis r bs id attr) eqn:E. revert E. instb ReachGen2.addSimplexWithBasis_I.
  - destruct (c_ensureBasis r bs attr) eqn:E. revert E. instb ReachGen2.ensureBasis_I.
  - destruct (addSimplicesFrom hp r src rn) as [[[hp' r'] st] x] eqn:E. revert E. instb ReachGen2.addSimplicesFrom_I.
  - destruct (deleteSimplex r s) eqn:E. eapply deleteSimplex_bcinv; eauto.
  - destruct (deleteSimplexWithBasis r bs) eqn:E. revert E. instb ReachGen2.deleteSimplexWithBasis_I.
  - destruct (deleteSimplices r ss) eqn:E. revert E. instb ReachGen2.deleteSimplices_I.
  - destruct (restrictBasisTo r bs) eqn:E. revert E. instb ReachGen2.restrictBasisTo_I.
  - destruct (barycentricSubdivide r s pts) eqn:E. revert E. instb ReachGen2.barycentricSubdivide_I.
  - destruct (relabel r rn) as [[r' st] x] eqn:E. revert E. instb ReachGen2.relabel_I.
  - destruct (relabelSimplex r s q) eqn:E. eapply relabelSimplex_bcinv; eauto.
Qed.

Theorem public_history_bcinv uid ops : bcinv (fold_left pstep ops (empty_rep uid)).
Proof.
  assert (H : forall r, bcinv r -> bcinv (fold_left pstep ops r)).
  { induction ops as [|o t IH]; intros r Hr; simpl; auto. apply IH. now apply pstep_bcinv. }
  apply H. apply bcinv_empty.
Qed.

(* the basis of a simplex is the set of points in its closure: exactly what is reached from it by
   as many face steps as its order *)
Theorem basis_is_closure_points r : bcinv r ->
  forall k t j, assoc t (r_simp r) = Some (k, j) -> forall p, In p (basisOf r t) <-> fchain r k t p.
Proof.
  intros [C B]. pose proof (c_s r C) as HS.
  induction k as [|k IH]; intros t j At p.
  - destruct (B t 0 j At) as [B0 _]. rewrite (B0 eq_refl). simpl. split; [intros [<-|[]]; reflexivity | intros <-; now left].
  - destruct (B t (S k) j At) as [_ B1]. rewrite (B1 ltac:(lia) p). simpl. split; intros (u & Hu & Hp); exists u; split; auto.
    + destruct (face_is_simplex r HS t u k j At Hu) as (iu & Au). now apply (IH u iu Au).
    + destruct (face_is_simplex r HS t u k j At Hu) as (iu & Au). now apply (IH u iu Au) in Hp.
Qed.
