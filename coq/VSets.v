(* VSets.v -- what the vertex-set reading (vinv) buys: a complex is closed under non-empty subsets,
   and closure / star are sub- / superset of bases.  Plain Coq. *)
From Coq Require Import String ZArith Bool Arith List Lia.
From SV Require Import Names NamesFacts ListFacts Rep Fresh Complex Atomic RepInv Reach Shapes Incidence AddEffect
                       Closed ClosedReach AddBasis BasisInv Duality DeleteEffect VInv AwbSpec.
Import ListNotations.
Open Scope nat_scope.

(* pigeonhole for a relation that is injective from the left *)
Lemma pigeon {A B} (R : A -> B -> Prop) : forall (l : list A) (m : list B),
  NoDup l -> (forall x, In x l -> exists y, In y m /\ R x y) ->
  (forall x x' y, In x l -> In x' l -> R x y -> R x' y -> x = x') -> length l <= length m.
Proof.
  induction l as [|x l IH]; intros m Hnd Hex Hinj; simpl; [lia|].
  inversion Hnd as [|? ? Hx Hl]; subst.
  destruct (Hex x (or_introl eq_refl)) as (y & Hy & Rxy).
  apply in_split in Hy. destruct Hy as (m1 & m2 & ->).
  rewrite app_length. simpl.
  assert (length l <= length (m1 ++ m2)); [|rewrite app_length in *; lia].
  apply IH; auto.
  - intros x' Hx'. destruct (Hex x' (or_intror Hx')) as (y' & Hy' & R').
    exists y'. split; [|exact R']. apply in_app_or in Hy'. apply in_or_app.
    destruct Hy' as [H|[H|H]]; auto. subst y'.
    exfalso. apply Hx. rewrite (Hinj x x' y); auto; [now left | now right].
  - intros a b c Ha Hb. apply Hinj; now right.
Qed.

(* a duplicate-free sublist one shorter misses exactly one element *)
Lemma one_short (a b : list name) : NoDup a -> NoDup b -> incl a b -> length b = S (length a) ->
  exists p, In p b /\ ~ In p a /\ forall q, In q b -> q = p \/ In q a.
Proof.
  intros Ha Hb Hi Hl.
  assert (E : exists p, In p b /\ ~ In p a).
  { destruct (existsb (fun p => negb (memn p a)) b) eqn:X.
    - apply existsb_exists in X. destruct X as (p & Hp & Hn). exists p. split; auto.
      apply negb_true_iff in Hn. now apply memn_false in Hn.
    - exfalso. assert (incl b a).
      { intros q Hq. destruct (memn q a) eqn:M; [now apply memn_In|].
        assert (existsb (fun p => negb (memn p a)) b = true); [|congruence].
        apply existsb_exists. exists q. rewrite M. auto. }
      pose proof (NoDup_incl_length Hb H). lia. }
  destruct E as (p & Hp & Hn). exists p. split; auto. split; auto.
  intros q Hq.
  assert (Hs : incl b (p :: a)).
  { apply NoDup_length_incl; [constructor; auto| simpl; lia |]. intros z [<-|Hz]; auto. }
  destruct (Hs q Hq); auto.
Qed.

Lemma a_basis_point r : vinv r -> forall t k j p, assoc t (r_simp r) = Some (k, j) -> In p (basisOf r t) ->
  exists i, assoc p (r_simp r) = Some (0, i).
Proof.
  intros Hv t k j p At Hp. pose proof (s_p r (c_s r (b_c r (v_b r Hv)))) as P.
  unfold basisOf in Hp. rewrite At in Hp. apply In_names_of_col_sub in Hp.
  pose proof P as [K Pm St L]. apply In_nth_error in Hp. destruct Hp as (i0 & Hi0). exists i0.
  apply Pm. split; [|exact Hi0]. destruct (Nat.lt_ge_cases 0 (r_nord r)) as [Hl|Hl]; [exact Hl|].
  rewrite (St 0 Hl) in Hi0. destruct i0; discriminate.
Qed.

Section V.
  Variable r : rep.
  Hypothesis Hv : vinv r.
  Let Hb : bcinv r := v_b r Hv.
  Let Hc : cinv r := b_c r Hb.
  Let Hs : sinv r := c_s r Hc.
  Let P : pinv r := s_p r Hs.

  Lemma contains_assoc t : containsSimplex r t = true <-> exists k j, assoc t (r_simp r) = Some (k, j).
  Proof.
    unfold containsSimplex. destruct (assoc t (r_simp r)) as [[k j]|]; split; intros H; try discriminate; eauto.
    destruct H as (k & j & H). discriminate.
  Qed.

  Lemma face_basis_sub t k j u : assoc t (r_simp r) = Some (S k, j) -> In u (faces r t) ->
    incl (basisOf r u) (basisOf r t).
  Proof.
    intros At Hu p Hp. destruct (b_b r Hb t (S k) j At) as [_ H]. apply H; [lia|]. eauto.
  Qed.

  (* a face spans all points of the simplex but one *)
  Lemma face_drops_one t k j u : assoc t (r_simp r) = Some (S k, j) -> In u (faces r t) ->
    exists p, In p (basisOf r t) /\ ~ In p (basisOf r u) /\ forall q, In q (basisOf r t) -> q = p \/ In q (basisOf r u).
  Proof.
    intros At Hu. destruct (face_is_simplex r Hs t u k j At Hu) as (i & Au).
    apply one_short; try (apply basis_nodup; exact P).
    - eapply face_basis_sub; eauto.
    - rewrite (v_card r Hv t (S k) j At), (v_card r Hv u k i Au). reflexivity.
  Qed.

  (* ... and every point is the one some face drops *)
  Lemma every_point_dropped t k j p : assoc t (r_simp r) = Some (S k, j) -> In p (basisOf r t) ->
    exists u, In u (faces r t) /\ ~ In p (basisOf r u).
  Proof.
    intros At Hp.
    destruct (existsb (fun u => negb (memn p (basisOf r u))) (faces r t)) eqn:X.
    - apply existsb_exists in X. destruct X as (u & Hu & Hn). exists u. split; auto.
      apply negb_true_iff in Hn. now apply memn_false in Hn.
    - exfalso.
      assert (All : forall u, In u (faces r t) -> In p (basisOf r u)).
      { intros u Hu. destruct (memn p (basisOf r u)) eqn:M; [now apply memn_In|].
        assert (existsb (fun u => negb (memn p (basisOf r u))) (faces r t) = true); [|congruence].
        apply existsb_exists. exists u. rewrite M. auto. }
      pose (m := filter (fun q => negb (name_eqb p q)) (basisOf r t)).
      assert (Lm : S (length m) = length (basisOf r t)).
      { pose proof (basis_nodup r t P) as Nd. revert Hp Nd. unfold m. generalize (basisOf r t) as l.
        induction l as [|a l IH]; intros Hin Nd; [destruct Hin|]. inversion Nd as [|? ? Ha Hl]; subst. simpl.
        destruct (name_eqb_spec p a) as [->|Hne]; simpl.
        - f_equal. clear IH Hin Nd Hl. induction l as [|b l IH]; simpl; auto.
          destruct (name_eqb_spec a b) as [->|Hne]; simpl; [exfalso; apply Ha; now left|].
          f_equal. apply IH. intros H. apply Ha. now right.
        - f_equal. apply IH; auto. destruct Hin; congruence. }
      pose (R := fun (u q : name) => In q (basisOf r t) /\ ~ In q (basisOf r u)).
      assert (Len : length (faces r t) <= length m).
      { apply (pigeon R).
        - apply faces_nodup. exact P.
        - intros u Hu. destruct (face_drops_one t k j u At Hu) as (q & Hq & Hnq & _).
          exists q. split; [|split; auto]. apply filter_In. split; auto.
          apply negb_true_iff. apply name_eqb_neq. intros <-. apply Hnq. now apply All.
        - intros u u' q Hu Hu' [Hq Hnu] [_ Hnu'].
          destruct (face_is_simplex r Hs t u k j At Hu) as (i & Au).
          destruct (face_is_simplex r Hs t u' k j At Hu') as (i' & Au').
          apply (v_uniq r Hv); try (apply contains_assoc; eauto).
          destruct (face_drops_one t k j u At Hu) as (a & Ha & Hna & Hall).
          destruct (face_drops_one t k j u' At Hu') as (a' & Ha' & Hna' & Hall').
          assert (a = q) by (destruct (Hall q Hq); [congruence|contradiction]).
          assert (a' = q) by (destruct (Hall' q Hq); [congruence|contradiction]). subst a a'.
          intros z. split; intros Hz.
          + pose proof (face_basis_sub t k j u At Hu z Hz) as Hzt. destruct (Hall' z Hzt); auto. subst. contradiction.
          + pose proof (face_basis_sub t k j u' At Hu' z Hz) as Hzt. destruct (Hall z Hzt); auto. subst. contradiction. }
      rewrite (c_f r Hc t k j At) in Len. rewrite (v_card r Hv t (S k) j At) in Lm. lia.
  Qed.

  (* CLOSED UNDER NON-EMPTY SUBSETS: every non-empty set of points of a simplex is spanned by a
     simplex of the complex, reached from it by |basis| - |B| face steps *)
  Theorem subsets_are_simplices : forall n t k j B,
    assoc t (r_simp r) = Some (k, j) -> NoDup B -> incl B (basisOf r t) -> length B + n = S k -> B <> [] ->
    exists u, containsSimplex r u = true /\ sameset (basisOf r u) B /\ fchain r n t u.
  Proof.
    induction n as [|n IH]; intros t k j B At Nd Hi Hl Hne.
    - exists t. split; [apply contains_assoc; eauto|]. split; [|reflexivity].
      intros x. split; [|apply Hi]. apply NoDup_length_incl; auto.
      rewrite (v_card r Hv t k j At). lia.
    - destruct k as [|k]; [destruct B; [congruence|simpl in Hl; lia]|].
      assert (E : exists p, In p (basisOf r t) /\ ~ In p B).
      { destruct (existsb (fun p => negb (memn p B)) (basisOf r t)) eqn:X.
        - apply existsb_exists in X. destruct X as (p & Hp & Hn). exists p. split; auto.
          apply negb_true_iff in Hn. now apply memn_false in Hn.
        - exfalso. assert (incl (basisOf r t) B).
          { intros q Hq. destruct (memn q B) eqn:M; [now apply memn_In|].
            assert (existsb (fun p => negb (memn p B)) (basisOf r t) = true); [|congruence].
            apply existsb_exists. exists q. rewrite M. auto. }
          pose proof (NoDup_incl_length (basis_nodup r t P) H). rewrite (v_card r Hv t (S k) j At) in *. lia. }
      destruct E as (p & Hp & Hnp).
      destruct (every_point_dropped t k j p At Hp) as (u & Hu & Hnu).
      destruct (face_is_simplex r Hs t u k j At Hu) as (i & Au).
      destruct (face_drops_one t k j u At Hu) as (a & Ha & Hna & Hall).
      assert (a = p) by (destruct (Hall p Hp); [congruence|contradiction]). subst a.
      destruct (IH u k i B Au Nd) as (w & Hw & Hsw & Hch); auto.
      + intros z Hz. destruct (Hall z (Hi z Hz)); auto. subst. contradiction.
      + lia.
      + exists w. split; auto. split; auto. exists u. split; auto.
  Qed.

  Lemma fchain_basis_sub : forall n t u, containsSimplex r t = true -> fchain r n t u ->
    containsSimplex r u = true /\ incl (basisOf r u) (basisOf r t).
  Proof.
    induction n as [|n IH]; intros t u Ht H; simpl in H.
    - subst. split; auto. intros x; auto.
    - destruct H as (w & Hw & H). apply contains_assoc in Ht. destruct Ht as (k & j & At).
      destruct k as [|k]; [unfold faces in Hw; rewrite At in Hw; destruct Hw|].
      destruct (face_is_simplex r Hs t w k j At Hw) as (i & Aw).
      destruct (IH w u) as [Cu Hi]; auto; [apply contains_assoc; eauto|]. split; auto.
      intros x Hx. eapply face_basis_sub; eauto.
  Qed.

  (* CLOSURE = the simplices on the non-empty subsets; STAR = the simplices on the supersets *)
  Theorem closure_is_subsets t u : containsSimplex r t = true ->
    ((exists n, fchain r n t u) <-> containsSimplex r u = true /\ incl (basisOf r u) (basisOf r t)).
  Proof.
    intros Ht. split.
    - intros (n & H). eapply fchain_basis_sub; eauto.
    - intros [Hu Hi]. pose proof Ht as Ht'. apply contains_assoc in Ht'. destruct Ht' as (k & j & At).
      pose proof Hu as Hu'. apply contains_assoc in Hu'. destruct Hu' as (ku & i & Au).
      pose proof (NoDup_incl_length (basis_nodup r u P) Hi) as Hle.
      rewrite (v_card r Hv t k j At), (v_card r Hv u ku i Au) in Hle.
      destruct (subsets_are_simplices (k - ku) t k j (basisOf r u) At) as (w & Hw & Hsw & Hch).
      + apply basis_nodup; exact P.
      + exact Hi.
      + rewrite (v_card r Hv u ku i Au). lia.
      + intros E. pose proof (v_card r Hv u ku i Au) as L. rewrite E in L. discriminate.
      + assert (w = u) by (apply (v_uniq r Hv); auto). subst w. eauto.
  Qed.
  Theorem star_is_supersets s t : containsSimplex r s = true ->
    ((exists n, cchain r n s t) <-> containsSimplex r t = true /\ incl (basisOf r s) (basisOf r t)).
  Proof.
    intros Hs'. split.
    - intros (n & H). pose proof Hs' as Hs''. apply contains_assoc in Hs''. destruct Hs'' as (k & i & As).
      destruct (cchain_order r Hs n s t k i As H) as (it & At).
      assert (Ht : containsSimplex r t = true) by (apply contains_assoc; eauto).
      apply (chain_duality r Hs) in H.
      split; auto. destruct (fchain_basis_sub n t s Ht H); auto.
    - intros [Ht Hi]. destruct (proj2 (closure_is_subsets t s Ht) (conj Hs' Hi)) as (n & H).
      exists n. now apply (chain_duality r Hs).
  Qed.
End V.

Theorem closed_under_subsets r : vinv r -> forall t B, containsSimplex r t = true ->
  NoDup B -> B <> [] -> incl B (basisOf r t) -> exists u, containsSimplex r u = true /\ sameset (basisOf r u) B.
Proof.
  intros Hv t B Ht Nd Hne Hi. pose proof Ht as Ht'. apply (contains_assoc r) in Ht'. destruct Ht' as (k & j & At).
  pose proof (NoDup_incl_length Nd Hi) as Hle. rewrite (v_card r Hv t k j At) in Hle.
  destruct (subsets_are_simplices r Hv (S k - length B) t k j B At Nd Hi) as (u & Hu & Hs & _); [lia|exact Hne|eauto].
Qed.

Theorem closureOf_is_subsets r s rev L : vinv r -> containsSimplex r s = true -> closureOf r s rev false = Ok L ->
  forall t, In t L <-> containsSimplex r t = true /\ incl (basisOf r t) (basisOf r s).
Proof.
  intros Hv Hs H t. pose proof Hs as Hs'. apply (contains_assoc r) in Hs'. destruct Hs' as (k & j & As).
  rewrite (closureOf_spec r (c_s r (b_c r (v_b r Hv))) s k j rev L As H t). now apply closure_is_subsets.
Qed.
Theorem partOf_is_supersets r s rev L : vinv r -> containsSimplex r s = true -> partOf r s rev false = Ok L ->
  forall t, In t L <-> containsSimplex r t = true /\ incl (basisOf r s) (basisOf r t).
Proof.
  intros Hv Hs H t. pose proof Hs as Hs'. apply (contains_assoc r) in Hs'. destruct Hs' as (k & j & As).
  rewrite (partOf_spec r (c_s r (b_c r (v_b r Hv))) s k j rev L As H t). now apply star_is_supersets.
Qed.

(* deleteSimplex, in vertex sets: exactly the simplices on supersets of s's points go, the others keep
   their points, and the reading survives *)
Theorem deleteSimplex_vertex_sets r s r' x : vinv r -> containsSimplex r s = true -> deleteSimplex r s = (r', x) ->
  x = Ok tt /\ vinv r' /\
  (forall t, containsSimplex r' t = true <-> containsSimplex r t = true /\ ~ incl (basisOf r s) (basisOf r t)) /\
  (forall t, containsSimplex r' t = true -> sameset (basisOf r' t) (basisOf r t)).
Proof.
  intros Hv Hs H. pose proof (c_s r (b_c r (v_b r Hv))) as HS.
  destruct (deleteSimplex_effect r s r' x HS Hs H) as (Hx & HS' & Hm & Hf).
  pose proof (deleteSimplex_vinv r s r' x Hv H) as Hv'.
  split; [exact Hx|]. split; [exact Hv'|]. split.
  - intros t. rewrite Hm. split; intros [Ht Hn]; split; auto.
    + intros Hi. apply Hn. apply (star_is_supersets r Hv s t Hs). auto.
    + intros Hch. apply Hn. now apply (star_is_supersets r Hv s t Hs) in Hch.
  - assert (G : forall k t, orderOf r t = Ok k -> containsSimplex r' t = true -> sameset (basisOf r' t) (basisOf r t)).
    { induction k as [|k IH]; intros t Ho Ht.
      - destruct (Hf t Ht) as [Ho' _]. rewrite Ho in Ho'.
        unfold orderOf in Ho, Ho'.
        destruct (assoc t (r_simp r)) as [[k0 j]|] eqn:At; [|discriminate]. injection Ho as ->.
        destruct (assoc t (r_simp r')) as [[k0 j']|] eqn:At'; [|discriminate]. injection Ho' as ->.
        destruct (b_b r (v_b r Hv) t 0 j At) as [E _]. destruct (b_b r' (v_b r' Hv') t 0 j' At') as [E' _].
        rewrite E, E'; auto. intros z; reflexivity.
      - destruct (Hf t Ht) as [Ho' Hff]. rewrite Ho in Ho'.
        unfold orderOf in Ho, Ho'.
        destruct (assoc t (r_simp r)) as [[k0 j]|] eqn:At; [|discriminate]. injection Ho as ->.
        destruct (assoc t (r_simp r')) as [[k0 j']|] eqn:At'; [|discriminate]. injection Ho' as ->.
        destruct (b_b r (v_b r Hv) t (S k) j At) as [_ E]. destruct (b_b r' (v_b r' Hv') t (S k) j' At') as [_ E'].
        intros p. rewrite E, E' by lia. split; intros (u & Hu & Hp).
        + exists u. split; [now apply Hff|].
          destruct (face_is_simplex r' HS' t u k j' At' Hu) as (i' & Au').
          apply (IH u); auto.
          * apply Hff in Hu. destruct (face_is_simplex r HS t u k j At Hu) as (i & Au). unfold orderOf. now rewrite Au.
          * apply (contains_assoc r'). eauto.
        + exists u. split; [now apply Hff|].
          apply Hff in Hu. destruct (face_is_simplex r' HS' t u k j' At' Hu) as (i' & Au').
          apply (IH u); auto.
          * apply Hff in Hu. destruct (face_is_simplex r HS t u k j At Hu) as (i & Au). unfold orderOf. now rewrite Au.
          * apply (contains_assoc r'). eauto. }
    intros t Ht. pose proof Ht as Ht'. apply Hm in Ht'. destruct Ht' as [Ht' _].
    apply (contains_assoc r) in Ht'. destruct Ht' as (k & j & At). apply (G k); auto. unfold orderOf. now rewrite At.
Qed.

(* add by basis, in vertex sets: the sets of points that carry a simplex afterwards are exactly those
   that did before and the non-empty subsets of bs *)
Theorem add_by_basis_vertex_sets r bs id attr r' n : vinv r -> NoDup bs -> 2 <= length bs ->
  c_addSimplexWithBasis r bs id attr = (r', Ok n) ->
  forall B, NoDup B -> B <> [] ->
  ((exists t, containsSimplex r' t = true /\ sameset (basisOf r' t) B) <->
   (exists t, containsSimplex r t = true /\ sameset (basisOf r t) B) \/ incl B bs).
Proof.
  intros Hv Hnd Hl H B NdB Hne.
  destruct (addSimplexWithBasis_spec r bs id attr r' n Hv Hnd Hl H) as (Hv' & Hc & Hs & [O N]).
  split.
  - intros (t & Ht & Hst). destruct (containsSimplex r t) eqn:C.
    + left. exists t. split; auto. destruct (O t C) as (_ & _ & _ & E). now rewrite <- E.
    + right. destruct (N t Ht) as [C'|Hi]; [congruence|]. intros z Hz. apply Hi. now apply Hst.
  - intros [(t & Ht & Hst)|Hi].
    + exists t. destruct (O t Ht) as (C' & _ & _ & E). split; auto. now rewrite E.
    + apply (closed_under_subsets r' Hv' n B Hc NdB Hne). intros z Hz. apply Hs. now apply Hi.
Qed.
