(* ShapesReach.v -- the shape invariant (Shapes.v) holds after every algorithm of base.py, and what
   follows from it for every complex built through the public operations: boundary operators
   have one column per simplex and one row per face-order simplex, Z() returns cycles, and the
   Euler characteristic is the alternating sum of the Betti numbers.  Plain Coq. *)
From Coq Require Import String ZArith Bool Arith List Lia.
From SV Require Import Names NamesFacts ListFacts Rep Fresh Complex Atomic RepInv Reach ReachGen Homology ListMat SnfCount Shapes ZCycles ZProofs2.
From SV Require Rank Betti ZProofs EulerP.
Import ListNotations.
Open Scope nat_scope.

Local Hint Resolve sinv_same_obs sinv_empty addSimplex_sinv relabelSimplex_sinv forceDeleteSimplex_sinv : sinv.
Ltac inst L := intros; eapply (L sinv); eauto with sinv.

Theorem deleteSimplex_sinv r s r' x : sinv r -> deleteSimplex r s = (r', x) -> sinv r'.
Proof. inst deleteSimplex_I. Qed.
Theorem deleteSimplexWithBasis_sinv r bs r' x : sinv r -> deleteSimplexWithBasis r bs = (r', x) -> sinv r'.
Proof. inst deleteSimplexWithBasis_I. Qed.
Theorem deleteSimplices_sinv r ss r' x : sinv r -> deleteSimplices r ss = (r', x) -> sinv r'.
Proof. inst deleteSimplices_I. Qed.
Theorem restrictBasisTo_sinv r bs r' x : sinv r -> restrictBasisTo r bs = (r', x) -> sinv r'.
Proof. inst restrictBasisTo_I. Qed.
Theorem ensureBasis_sinv r bs attr r' x : sinv r -> c_ensureBasis r bs attr = (r', x) -> sinv r'.
Proof. inst ensureBasis_I. Qed.
Theorem addSimplexWithBasis_sinv r bs id attr r' x : sinv r -> c_addSimplexWithBasis r bs id attr = (r', x) -> sinv r'.
Proof. inst addSimplexWithBasis_I. Qed.
Theorem barycentricSubdivide_sinv r s pts r' x : sinv r -> barycentricSubdivide r s pts = (r', x) -> sinv r'.
Proof. inst barycentricSubdivide_I. Qed.
Theorem relabel_sinv r rn r' st x : sinv r -> relabel r rn = (r', st, x) -> sinv r'.
Proof. inst relabel_I. Qed.
Theorem addSimplicesFrom_sinv hp r src rn hp' r' st x : sinv r -> addSimplicesFrom hp r src rn = (hp', r', st, x) -> sinv r'.
Proof. inst addSimplicesFrom_I. Qed.
Theorem copy_new_sinv hp src uid hp' r' x : copy_new hp src uid = (hp', r', x) -> sinv r'.
Proof. inst copy_new_I. Qed.
Theorem copy_into_sinv hp src target hp' r' x : sinv target -> copy_into hp src target = (hp', r', x) -> sinv r'.
Proof. inst copy_into_I. Qed.

(* ---------- consequences, for every representation satisfying the invariant ---------- *)
Theorem Z1_are_cycles r k ch : sinv r -> In ch (Z1 r k) ->
  forall i, i < nrows (boundaryOperator r k) -> vsum name (colval r k) ch i = false.
Proof.
  intros H. apply Z1_cycles.
  - apply simplicesOfOrder_nodup, (s_p r H).
  - now apply boundary_ncols.
Qed.

Theorem Z1_number r k :
  length (Z1 r k) = length (simplicesOfOrder r k) - Betti.rk (boundaryOperator r k).
Proof. apply ZProofs.Z1_count. Qed.

Theorem euler_is_alternating_betti_sum r : sinv r ->
  eulerCharacteristic r = EulerP.alt_sumZ 1%Z (map (betti1 r) (seq 0 (r_nord r))).
Proof. intros H. apply EulerP.euler_characteristic_is_alt_betti. intros k _. now apply boundary_ncols. Qed.

(* ... in particular for every history of primitive operations from the empty complex *)
Corollary reachable_euler uid ops :
  let r := fold_left rstep ops (empty_rep uid) in
  eulerCharacteristic r = EulerP.alt_sumZ 1%Z (map (betti1 r) (seq 0 (r_nord r))).
Proof. apply euler_is_alternating_betti_sum, reachable_sinv. Qed.
