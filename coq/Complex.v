(* Complex.v -- model of simplicial/base.py (class SimplicialComplex) on top of Rep.v:
   adding by basis, bulk adds, relabelling, deletion, restriction, subdivision, closure/star,
   comparisons, chains.  Model file: no proofs. *)
From Coq Require Import String ZArith Bool Arith List.
From SV Require Import Names Rep.
Import ListNotations.
Open Scope nat_scope.

(* ---------- attribute dictionaries live in a heap ---------- *)
Inductive aval := AInt (z : Z) | AStr (s : string).     (* AStr = any other JSON value, as text *)
Definition dict := list (string * aval).
Definition heap := list (handle * dict).
Fixpoint heap_get (hp : heap) (h : handle) : dict :=    (* a never-written handle is an empty dict *)
  match hp with [] => [] | (h', d) :: t => if handle_eqb h h' then d else heap_get t h end.
Fixpoint heap_set (hp : heap) (h : handle) (d : dict) : heap :=
  match hp with
  | [] => [(h, d)]
  | (h', d') :: t => if handle_eqb h h' then (h', d) :: t else (h', d') :: heap_set t h d
  end.
Fixpoint dict_get (d : dict) (k : string) : option aval :=
  match d with [] => None | (k', v) :: t => if String.eqb k k' then Some v else dict_get t k end.
Fixpoint dict_set (d : dict) (k : string) (v : aval) : dict :=
  match d with
  | [] => [(k, v)]
  | (k', v') :: t => if String.eqb k k' then (k', v) :: t else (k', v') :: dict_set t k v
  end.

Definition bind {A B} (x : res A) (f : A -> res B) : res B :=
  match x with Ok a => f a | Raise e => Raise e end.

(* ================= the part of base.py that Filtration inherits with its own
   containsSimplex / orderOf / addSimplex: isBasis, ensureBasis, simplexWithBasis,
   _addSimplexWithBasis, addSimplexWithBasis ================= *)
Section WithBasis.
  Variable St : Type.
  Variable getrep : St -> rep.
  Variable setrep : St -> rep -> St.
  Variable containsS : St -> name -> bool.                 (* self.containsSimplex / `in` *)
  Variable orderOfS : St -> name -> res nat.               (* self.orderOf *)
  Variable addS : St -> list name -> option name -> option handle -> St * res name.

  Fixpoint isBasis (st : St) (bs : list name) (fatal : bool) : res bool :=
    match bs with
    | [] => Ok true
    | b :: t =>
        if containsS st b then
          match orderOfS st b with
          | Raise e => Raise e
          | Ok 0 => isBasis st t fatal
          | Ok _ => if fatal then Raise ValueError else Ok false
          end
        else if fatal then Raise KeyError else Ok false
    end.

  (* SimplicialComplex.simplexWithBasis (the base.py one) *)
  Definition simplexWithBasis (st : St) (bs : list name) (fatal : bool) : res (option name) :=
    match isBasis st bs fatal with
    | Raise e => Raise e
    | Ok false => Ok None
    | Ok true =>
        match bs with
        | [] => Raise IndexError            (* outside the modelled domain: empty basis *)
        | [b] => Ok (Some b)
        | _ =>
            let k := length bs - 1 in
            let r := getrep st in
            if r_nord r <=? k then (if fatal then Raise KeyError else Ok None)
            else
              match find (fun s => seteq bs (basisOf r s)) (simplicesOfOrder r k) with
              | Some s => Ok (Some s)
              | None => if fatal then Raise KeyError else Ok None
              end
        end
    end.

  (* ensureBasis: the pre-pass rejects a non-point before anything is created *)
  Fixpoint ensure_check (st : St) (bs : list name) : res unit :=
    match bs with
    | [] => Ok tt
    | b :: t =>
        if containsS st b then
          match orderOfS st b with
          | Raise e => Raise e
          | Ok 0 => ensure_check st t
          | Ok _ => Raise ValueError
          end
        else ensure_check st t
    end.
  Fixpoint ensure_add (st : St) (bs : list name) (attr : option handle) : St * res unit :=
    match bs with
    | [] => (st, Ok tt)
    | b :: t =>
        if containsS st b then
          match orderOfS st b with
          | Raise e => (st, Raise e)
          | Ok 0 => ensure_add st t attr
          | Ok _ => (st, Raise ValueError)
          end
        else
          match addS st [] (Some b) attr with
          | (st', Raise e) => (st', Raise e)
          | (st', Ok _) => ensure_add st' t attr
          end
    end.
  Definition ensureBasis (st : St) (bs : list name) (attr : option handle) : St * res unit :=
    match ensure_check st bs with
    | Raise e => (st, Raise e)
    | Ok _ => ensure_add st bs attr
    end.

  (* _addSimplexWithBasis; the recursion depth is at most |bs| *)
  Fixpoint awb (fuel : nat) (st : St) (id : name) (attr : handle) (k : nat) (bs : list name)
    : St * res name :=
    match fuel with
    | 0 => (st, Raise OutOfFuel)
    | S f =>
        match simplexWithBasis st bs false with
        | Raise e => (st, Raise e)
        | Ok (Some s) => (st, Ok s)
        | Ok None =>
            let '(st1, rfs) :=
              fold_left
                (fun (acc : St * res (list name)) (pfs : list name) =>
                   match acc with
                   | (st', Raise e) => (st', Raise e)
                   | (st', Ok fs) =>
                       match awb f st' id attr k pfs with
                       | (st'', Ok s) => (st'', Ok (fs ++ [s]))
                       | (st'', Raise e) => (st'', Raise e)
                       end
                   end)
                (drop_one bs) (st, Ok []) in
            match rfs with
            | Raise e => (st1, Raise e)
            | Ok fs =>
                let fs := dedupn fs in          (* fs is a Python set *)
                if k =? length bs - 1 then addS st1 fs (Some id) (Some attr)
                else
                  (* a face: synthesise a name that is not the one reserved for the top simplex
                     (the second newSimplex call necessarily returns a different name) *)
                  let '(r1, x1) := newSimplex (getrep st1) (length bs - 1) in
                  match x1 with
                  | Raise e => (setrep st1 r1, Raise e)
                  | Ok n1 =>
                      if name_eqb n1 id then
                        let '(r2, x2) := newSimplex r1 (length bs - 1) in
                        match x2 with
                        | Raise e => (setrep st1 r2, Raise e)
                        | Ok n2 => addS (setrep st1 r2) fs (Some n2) None
                        end
                      else addS (setrep st1 r1) fs (Some n1) None
                  end
            end
        end
    end.

  Definition addSimplexWithBasis (st : St) (bs : list name) (id : option name) (attr : option handle)
    : St * res name :=
    match bs with
    | [] => (st, Raise IndexError)          (* outside the modelled domain: empty basis *)
    | _ =>
    let k := length bs - 1 in
    if (match id with
        | Some n => containsSimplex (getrep st) n || ((0 <? k) && memn n bs)
        | None => false
        end)
    then (st, Raise KeyError) else
    let '(st, h) := match attr with
                    | Some h => (st, h)
                    | None => let '(r', h) := alloc (getrep st) in (setrep st r', h)
                    end in
    match simplexWithBasis st bs false with
    | Raise e => (st, Raise e)
    | Ok (Some _) => (st, Raise KeyError)
    | Ok None =>
        if k =? 0 then addS st [] id (Some h)
        else
          match ensureBasis st bs (Some h) with
          | (st, Raise e) => (st, Raise e)
          | (st, Ok _) =>
              match (match id with
                     | Some n => (st, Ok n)
                     | None => let '(r', x) := newSimplex (getrep st) k in (setrep st r', x)
                     end) with
              | (st, Raise e) => (st, Raise e)
              | (st, Ok n) => awb (S (length bs)) st n h k bs
              end
          end
    end
    end.
End WithBasis.

(* ---------- instance: a plain SimplicialComplex is its representation ---------- *)
Definition c_isBasis := isBasis rep containsSimplex orderOf.
Definition c_simplexWithBasis := simplexWithBasis rep (fun r => r) containsSimplex orderOf.
Definition c_ensureBasis := ensureBasis rep containsSimplex orderOf addSimplex.
Definition c_addSimplexWithBasis :=
  addSimplexWithBasis rep (fun r => r) (fun _ r' => r') containsSimplex orderOf addSimplex.

(* ---------- renamings: dict / function, made re-entrant by _createRelabelling ---------- *)
Inductive renfn :=
| FTup (z : Z)            (* lambda s: (s, z) *)
| FCount (base : Z)       (* a counter: the n-th call returns base + n, whatever s is *)
| FPrefix (p : string)    (* lambda s: p + str(s) *)
| FConst (n : name).      (* lambda s: n *)
Inductive ren := RNone | RMap (m : list (name * name)) | RFun (f : renfn).
Record rl := mkRl { rl_memo : list (name * name); rl_calls : list name }.
Definition rl0 : rl := mkRl [] [].
Definition apply_fn (f : renfn) (s : name) (ncall : nat) : name :=
  match f with
  | FTup z => NTup [s; NInt z]
  | FCount b => NInt (b + Z.of_nat ncall)
  | FPrefix p => NStr (p ++ str_name s)
  | FConst n => n
  end.
Definition rl_apply (rn : ren) (st : rl) (s : name) : rl * name :=
  match rn with
  | RNone => (st, s)
  | RMap m =>
      match assoc s (rl_memo st) with
      | Some t => (st, t)
      | None => let t := match assoc s m with Some t => t | None => s end in
                (mkRl (rl_memo st ++ [(s, t)]) (rl_calls st), t)
      end
  | RFun f =>
      match assoc s (rl_memo st) with
      | Some t => (st, t)
      | None => let t := apply_fn f s (length (rl_calls st)) in
                (mkRl (rl_memo st ++ [(s, t)]) (rl_calls st ++ [s]), t)
      end
  end.
Fixpoint rl_map (rn : ren) (st : rl) (l : list name) : rl * list name :=
  match l with
  | [] => (st, [])
  | x :: t => let '(st1, y) := rl_apply rn st x in
              let '(st2, ys) := rl_map rn st1 t in (st2, y :: ys)
  end.

(* ---------- addSimplicesFrom: the source is seen through its public queries
   (simplices(), faces(s), c[s]) ---------- *)
Definition srcview := list (name * (list name * handle)).
Definition view_of (r : rep) : srcview :=
  map (fun s => (s, (faces r s, match assoc s (r_attr r) with Some h => h | None => (0, 0) end)))
      (simplices r false).

Fixpoint addFrom_loop (hp : heap) (r : rep) (rn : ren) (st : rl) (src : srcview) (ns : list name)
  : heap * rep * rl * res (list name) :=
  match src with
  | [] => (hp, r, st, Ok ns)
  | (s, (fs, h)) :: rest =>
      let '(st1, t) := rl_apply rn st s in
      if negb (name_eqb s t) && containsSimplex r t then (hp, r, st1, Raise ValueError) else
      let '(st2, fs') := rl_map rn st1 fs in
      let '(r1, h') := alloc r in                          (* copy.copy(c[s]) *)
      let hp1 := heap_set hp h' (heap_get hp h) in
      match addSimplex r1 fs' (Some t) (Some h') with
      | (r2, Raise e) => (hp1, r2, st2, Raise e)
      | (r2, Ok id) => addFrom_loop hp1 r2 rn st2 rest (ns ++ [id])
      end
  end.
Definition addSimplicesFrom (hp : heap) (r : rep) (src : srcview) (rn : ren)
  : heap * rep * rl * res (list name) :=
  addFrom_loop hp r rn rl0 src [].

(* copy(): a new complex (fresh uid) / copy(c): into c when no name is shared *)
Definition copy_new (hp : heap) (src : srcview) (uid : nat) : heap * rep * res unit :=
  let '(hp', r', _, x) := addSimplicesFrom hp (empty_rep uid) src RNone in
  (hp', r', bind x (fun _ => Ok tt)).
Definition copy_into (hp : heap) (src : srcview) (target : rep) : heap * rep * res unit :=
  if negb (length (intern (map fst src) (simplices target false)) =? 0)
  then (hp, target, Raise ValueError)
  else let '(hp', r', _, x) := addSimplicesFrom hp target src RNone in
       (hp', r', bind x (fun _ => Ok tt)).

(* ---------- relabel (checks the whole renaming, then renames) ---------- *)
Fixpoint relabel_check (rn : ren) (st : rl) (ss : list name) (names : list name) : rl * res unit :=
  match ss with
  | [] => (st, Ok tt)
  | s :: t =>
      let '(st1, s') := rl_apply rn st s in
      if name_eqb s s' then relabel_check rn st1 t names
      else if memn s' names then (st1, Raise ValueError)
      else relabel_check rn st1 t (filter (fun x => negb (name_eqb s x)) names ++ [s'])
  end.
Fixpoint relabel_do (r : rep) (rn : ren) (st : rl) (ss : list name) (mapping : list (name * name))
  : rep * rl * res (list (name * name)) :=
  match ss with
  | [] => (r, st, Ok mapping)
  | s :: t =>
      let '(st1, s') := rl_apply rn st s in
      if name_eqb s s' then relabel_do r rn st1 t mapping
      else match relabelSimplex r s s' with
           | (r', Raise e) => (r', st1, Raise e)
           | (r', Ok _) => relabel_do r' rn st1 t (mapping ++ [(s, s')])
           end
  end.
Definition relabel (r : rep) (rn : ren) : rep * rl * res (list (name * name)) :=
  let ss := simplices r false in
  match relabel_check rn rl0 ss ss with
  | (st, Raise e) => (r, st, Raise e)
  | (st, Ok _) => relabel_do r rn st ss []
  end.

(* _createDisjointRenaming(c): names of c (by order) that are also ours get '{s}->{k}d{u}', the first such name that
   neither we nor c use and that no other simplex was given *)
Fixpoint disj_search (fuel : nat) (r c : rep) (taken : list name) (s : name) (k u : nat) : option name :=
  match fuel with
  | 0 => None
  | S f => let q := disj_name s k u in
           if containsSimplex r q || containsSimplex c q || memn q taken then disj_search f r c taken s k (S u) else Some q
  end.
Definition createDisjointRenaming (r : rep) (c : rep) : res (list (name * name)) :=
  fold_left
    (fun acc k =>
       fold_left
         (fun acc s =>
            match acc with
            | Raise e => Raise e
            | Ok m =>
                if containsSimplex r s then
                  match disj_search (S (length (r_simp r) + length (r_simp c) + length m)) r c (map snd m) s k 1 with
                  | Some q => Ok (assoc_set s q m)
                  | None => Raise OutOfFuel
                  end
                else Ok m
            end)
         (simplicesOfOrder c k) acc)
    (seq 0 (r_nord c)) (Ok []).
Definition relabelDisjointFrom (r : rep) (c : rep) : rep * rl * res (list (name * name)) :=
  match createDisjointRenaming r c with
  | Raise e => (r, rl0, Raise e)
  | Ok m => relabel r (RMap m)
  end.

(* ---------- star / partOf / closureOf ---------- *)
Fixpoint partOf_aux (fuel : nat) (r : rep) (s : name) (k : nat) : list (nat * name) :=
  match fuel with
  | 0 => []
  | S f => flat_map (fun c => (S k, c) :: partOf_aux f r c (S k)) (cofaces r s)
  end.
Fixpoint dedup_on (l : list (nat * name)) : list (nat * name) :=
  match l with
  | [] => []
  | (k, n) :: t => (k, n) :: filter (fun p => negb (name_eqb n (snd p))) (dedup_on t)
  end.
Fixpoint insert_by (le : nat -> nat -> bool) (p : nat * name) (l : list (nat * name)) :=
  match l with
  | [] => [p]
  | q :: t => if le (fst p) (fst q) then p :: q :: t else q :: insert_by le p t
  end.
(* stable sorts by order *)
Definition sort_asc (l : list (nat * name)) := fold_right (insert_by Nat.leb) [] l.
Definition sort_desc (l : list (nat * name)) := fold_right (insert_by (fun a b => b <=? a)) [] l.

Definition partOf (r : rep) (s : name) (reverse exclude_self : bool) : res (list name) :=
  match orderOf r s with
  | Raise e => Raise e
  | Ok k =>
      let psos := dedup_on (partOf_aux (S (r_nord r)) r s k) in
      let sps := map snd (if reverse then sort_desc psos else sort_asc psos) in
      Ok (if exclude_self then sps else if reverse then sps ++ [s] else s :: sps)
  end.

(* closure by levels: cs[k] = {s}, cs[j-1] = union of faces of cs[j] *)
Fixpoint closure_levels (r : rep) (k : nat) (cur : list name) : list (list name) :=
  match k with
  | 0 => [cur]
  | S k' => cur :: closure_levels r k' (dedupn (flat_map (faces r) cur))
  end.                                              (* highest order first *)
Definition closureOf (r : rep) (s : name) (reverse exclude_self : bool) : res (list name) :=
  match orderOf r s with
  | Raise e => Raise e
  | Ok k =>
      let lv := closure_levels r k [s] in           (* orders k, k-1, .., 0 *)
      let lv := if exclude_self then tl lv else lv in
      Ok (concat (if reverse then lv else rev lv))
  end.

(* ---------- deletion ---------- *)
Definition deleteSimplex (r : rep) (s : name) : rep * res unit :=
  match partOf r s true false with
  | Raise e => (r, Raise e)
  | Ok ts =>
      fold_left (fun acc t => match acc with
                              | (r', Raise e) => (r', Raise e)
                              | (r', Ok _) => forceDeleteSimplex r' t
                              end) ts (r, Ok tt)
  end.
Definition deleteSimplexWithBasis (r : rep) (bs : list name) : rep * res unit :=
  match c_simplexWithBasis r bs false with
  | Raise e => (r, Raise e)
  | Ok None => (r, Raise KeyError)                  (* orderOf(None) *)
  | Ok (Some s) => deleteSimplex r s
  end.
Definition deleteSimplices (r : rep) (ss : list name) : rep * res unit :=
  fold_left (fun acc s => match acc with
                          | (r', Raise e) => (r', Raise e)
                          | (r', Ok _) => if containsSimplex r' s then deleteSimplex r' s else (r', Ok tt)
                          end) ss (r, Ok tt).

(* restrictBasisTo: retain = everything reachable upwards from bs through cofaces *)
Fixpoint retain_loop (fuel : nat) (r : rep) (retain source : list name) : res (list name) :=
  match fuel with
  | 0 => Raise OutOfFuel
  | S f =>
      let target := dedupn (flat_map (cofaces r) source) in
      if subsetn target retain then Ok retain
      else retain_loop f r (unionn retain target) target
  end.
Definition restrictBasisTo (r : rep) (bs : list name) : rep * res unit :=
  match c_isBasis r bs true with
  | Raise e => (r, Raise e)
  | Ok _ =>
      match retain_loop (S (S (r_nord r))) r (dedupn bs) (dedupn bs) with
      | Raise e => (r, Raise e)
      | Ok retain =>
          fold_left (fun acc s => match acc with
                                  | (r', Raise e) => (r', Raise e)
                                  | (r', Ok _) =>
                                      if containsSimplex r' s && negb (memn s retain)
                                      then deleteSimplex r' s else (r', Ok tt)
                                  end) (simplices r false) (r, Ok tt)
      end
  end.

(* barycentricSubdivide; `points` is list(self.basisOf(simplex)) in the order Python's set
   iteration produced it (an oracle argument: any permutation of the basis) *)
Definition barycentricSubdivide (r : rep) (simplex : name) (points : list name) : rep * res name :=
  if negb (containsSimplex r simplex) then (r, Raise KeyError) else
  match orderOf r simplex with
  | Raise e => (r, Raise e)
  | Ok 0 => (r, Raise ValueError)
  | Ok _ =>
      match addSimplex r [] None None with
      | (r1, Raise e) => (r1, Raise e)
      | (r1, Ok mid) =>
          let points := if seteq points (basisOf r1 simplex) && nodupb points
                        then points else basisOf r1 simplex in
          match deleteSimplex r1 simplex with
          | (r2, Raise e) => (r2, Raise e)
          | (r2, Ok _) =>
              let '(r3, x) :=
                fold_left (fun acc idx =>
                             match acc with
                             | (r', Raise e) => (r', Raise e)
                             | (r', Ok _) =>
                                 match c_addSimplexWithBasis r' (remove_nth idx points ++ [mid]) None None with
                                 | (r'', Raise e) => (r'', Raise e)
                                 | (r'', Ok _) => (r'', Ok tt)
                                 end
                             end) (seq 0 (length points)) (r2, Ok tt) in
              (r3, bind x (fun _ => Ok mid))
          end
      end
  end.

(* ---------- counting, comparison ---------- *)
Definition numberOfSimplicesOfOrder (r : rep) : list nat :=
  map (fun k => length (simplicesOfOrder r k)) (seq 0 (r_nord r)).
Definition numberOfSimplices (r : rep) : nat := fold_right Nat.add 0 (numberOfSimplicesOfOrder r).
Fixpoint alt_sum (sign : Z) (l : list nat) : Z :=
  match l with [] => 0%Z | n :: t => (sign * Z.of_nat n + alt_sum (- sign) t)%Z end.
Definition eulerCharacteristic (r : rep) : Z := alt_sum 1 (numberOfSimplicesOfOrder r).

Definition isSubComplexOf (a c : rep) : bool :=
  forallb (fun k =>
             forallb (fun i =>
                        containsSimplex c i &&
                        (match orderOf c i with Ok k' => k' =? k | Raise _ => false end) &&
                        subsetn (faces a i) (faces c i))
                     (simplicesOfOrder a k))
          (seq 0 (r_nord a)).
Definition c_le (a c : rep) : bool := isSubComplexOf a c.
Definition c_lt (a c : rep) : bool := c_le a c && (numberOfSimplices a <? numberOfSimplices c).
Definition c_ge (a c : rep) : bool := c_le c a.
Definition c_gt (a c : rep) : bool := c_lt c a.
Definition c_eq (a c : rep) : bool := c_le a c && (numberOfSimplices a =? numberOfSimplices c).
Definition c_ne (a c : rep) : bool := negb (c_eq a c).

(* ---------- chains ---------- *)
Definition isChainFatal (r : rep) (ss : list name) : res unit :=
  match ss with
  | [] => Ok tt
  | s0 :: _ =>
      match orderOf r s0 with
      | Raise e => Raise e
      | Ok p =>
          fold_left (fun acc s => match acc with
                                  | Raise e => Raise e
                                  | Ok _ => if negb (containsSimplex r s) then Raise ValueError
                                            else match orderOf r s with
                                                 | Ok sk => if sk =? p then Ok tt else Raise ValueError
                                                 | Raise e => Raise e
                                                 end
                                  end) ss (Ok tt)
      end
  end.
Definition boundary (r : rep) (ss : list name) : res (list name) :=
  match isChainFatal r ss with
  | Raise e => Raise e
  | Ok _ => Ok (fold_left (fun bs s => symdiffn bs (faces r s)) ss [])
  end.
Definition disjoint (r : rep) (ss : list name) : res bool :=
  bind
    (fold_left (fun acc s =>
               match acc with
               | Raise e => Raise e
               | Ok (false, cl) => Ok (false, cl)
               | Ok (true, None) => bind (closureOf r s false false) (fun c => Ok (true, Some c))
               | Ok (true, Some cl) =>
                   bind (closureOf r s false false)
                        (fun c => if length (intern cl c) =? 0 then Ok (true, Some (unionn cl c))
                                  else Ok (false, Some cl))
               end) ss (Ok (true, None)))
    (fun p => Ok (fst p)).
