(* SortedViews.v -- closureOf / partOf: the `exclude_self` variants are the full answers without s, and the
   answers are sorted by order, ascending or (reverse=True) descending (C04).  Plain Coq. *)
From Coq Require Import String ZArith Bool Arith List Lia.
From SV Require Import Names NamesFacts ListFacts Rep Fresh Complex Atomic RepInv Reach Shapes Incidence AddEffect
                       DelEffect StarOrder Closed ClosedReach Duality ClosureCount.
Import ListNotations.
Open Scope nat_scope.

(* orders along a list: never increasing / never decreasing *)
Fixpoint ndesc (l : list nat) : Prop := match l with [] => True | a :: t => (forall b, In b t -> b <= a) /\ ndesc t end.
Fixpoint nasc (l : list nat) : Prop := match l with [] => True | a :: t => (forall b, In b t -> a <= b) /\ nasc t end.

Lemma ndesc_app l1 l2 : ndesc l1 -> ndesc l2 -> (forall a b, In a l1 -> In b l2 -> b <= a) -> ndesc (l1 ++ l2).
Proof.
  induction l1 as [|x t IH]; simpl; intros H1 H2 H; [exact H2|]. destruct H1 as [Hx Ht]. split.
  - intros b Hb. apply in_app_or in Hb. destruct Hb; [now apply Hx | apply (H x b); auto].
  - apply IH; auto.
Qed.
Lemma nasc_app l1 l2 : nasc l1 -> nasc l2 -> (forall a b, In a l1 -> In b l2 -> a <= b) -> nasc (l1 ++ l2).
Proof.
  induction l1 as [|x t IH]; simpl; intros H1 H2 H; [exact H2|]. destruct H1 as [Hx Ht]. split.
  - intros b Hb. apply in_app_or in Hb. destruct Hb; [now apply Hx | apply (H x b); auto].
  - apply IH; auto.
Qed.
Lemma ndesc_const (l : list nat) n : (forall x, In x l -> x = n) -> ndesc l.
Proof. induction l as [|a t IH]; simpl; intros H; [exact I|]. split; [intros b Hb; rewrite (H a), (H b); auto|]. apply IH. auto. Qed.
Lemma nasc_const (l : list nat) n : (forall x, In x l -> x = n) -> nasc l.
Proof. induction l as [|a t IH]; simpl; intros H; [exact I|]. split; [intros b Hb; rewrite (H a), (H b); auto|]. apply IH. auto. Qed.

(* ---------- closureOf ---------- *)
Lemma closure_levels_head r k cur : exists rest, closure_levels r k cur = cur :: rest.
Proof. destruct k; simpl; eauto. Qed.

(* levels tagged n, n-1, ..: their concatenation is descending, that of the reversed list ascending *)
Lemma tagged_desc r : forall (lv : list (list name)) (tags : list nat),
  Forall2 (fun l n => NoDup l /\ forall x, In x l -> ord r x = n) lv tags -> ndesc tags ->
  ndesc (map (ord r) (concat lv)) /\ forall x, In x (map (ord r) (concat lv)) -> In x tags.
Proof.
  induction 1 as [|l n lv tags [_ Hl] H IH]; intros Hd; simpl; [split; [exact I | intros x []]|].
  destruct Hd as [Hn Hd]. destruct (IH Hd) as [IH1 IH2]. rewrite map_app. split.
  - apply ndesc_app; [apply (ndesc_const _ n); intros x Hx; apply in_map_iff in Hx; destruct Hx as (y & <- & Hy); auto | exact IH1|].
    intros a b Ha Hb. apply in_map_iff in Ha. destruct Ha as (y & <- & Hy). rewrite (Hl y Hy). apply Hn. now apply IH2.
  - intros x Hx. apply in_app_or in Hx. destruct Hx as [Hx|Hx]; [left|right; now apply IH2].
    apply in_map_iff in Hx. destruct Hx as (y & <- & Hy). symmetry. now apply Hl.
Qed.

Lemma tagged_asc r : forall (lv : list (list name)) (tags : list nat),
  Forall2 (fun l n => NoDup l /\ forall x, In x l -> ord r x = n) lv tags -> nasc tags ->
  nasc (map (ord r) (concat lv)) /\ forall x, In x (map (ord r) (concat lv)) -> In x tags.
Proof.
  induction 1 as [|l n lv tags [_ Hl] H IH]; intros Hd; simpl; [split; [exact I | intros x []]|].
  destruct Hd as [Hn Hd]. destruct (IH Hd) as [IH1 IH2]. rewrite map_app. split.
  - apply nasc_app; [apply (nasc_const _ n); intros x Hx; apply in_map_iff in Hx; destruct Hx as (y & <- & Hy); auto | exact IH1|].
    intros a b Ha Hb. apply in_map_iff in Ha. destruct Ha as (y & <- & Hy). rewrite (Hl y Hy). apply Hn. now apply IH2.
  - intros x Hx. apply in_app_or in Hx. destruct Hx as [Hx|Hx]; [left|right; now apply IH2].
    apply in_map_iff in Hx. destruct Hx as (y & <- & Hy). symmetry. now apply Hl.
Qed.

Lemma ndesc_down k : ndesc (down k).
Proof. induction k as [|k IH]; simpl; [split; [intros b []|exact I]|]. split; [|exact IH]. intros b Hb. apply In_down in Hb. lia. Qed.
Lemma nasc_rev l : ndesc l -> nasc (rev l).
Proof.
  induction l as [|a t IH]; simpl; intros H; [exact I|]. destruct H as [Ha Ht].
  apply nasc_app; [now apply IH | simpl; split; [intros b []|exact I]|].
  intros x b Hx [<-|[]]. apply Ha. now apply in_rev.
Qed.
Lemma ndesc_tl l : ndesc l -> ndesc (tl l).
Proof. destruct l; simpl; tauto. Qed.
Lemma Forall2_tl {A B} (R : A -> B -> Prop) l m : Forall2 R l m -> Forall2 R (tl l) (tl m).
Proof. intros H. destruct H; simpl; auto. Qed.

(* C04: closureOf is sorted by order -- ascending, descending on request -- whether or not s is kept *)
Theorem closureOf_sorted r s rev excl L : sinv r -> closureOf r s rev excl = Ok L ->
  if rev then ndesc (map (ord r) L) else nasc (map (ord r) L).
Proof.
  intros HS H. unfold closureOf, orderOf in H. destruct (assoc s (r_simp r)) as [[k j]|] eqn:As; [|discriminate].
  injection H as <-.
  assert (T : Forall2 (fun l n => NoDup l /\ forall x, In x l -> ord r x = n) (closure_levels r k [s]) (down k)).
  { apply closure_levels_tagged; [exact HS | constructor; [intros []|constructor] | intros x [<-|[]]; eauto]. }
  set (lv := if excl then tl (closure_levels r k [s]) else closure_levels r k [s]).
  set (tg := if excl then tl (down k) else down k).
  assert (T' : Forall2 (fun l n => NoDup l /\ forall x, In x l -> ord r x = n) lv tg).
  { unfold lv, tg. destruct excl; [now apply Forall2_tl | exact T]. }
  assert (D : ndesc tg) by (unfold tg; destruct excl; [apply ndesc_tl|]; apply ndesc_down).
  destruct rev.
  - exact (proj1 (tagged_desc r lv tg T' D)).
  - apply (tagged_asc r (List.rev lv) (List.rev tg)); [now apply Forall2_rev | now apply nasc_rev].
Qed.

(* C04: exclude_self drops exactly s, at the end it stands at *)
Theorem closureOf_exclude_self r s : forall L1 L2, closureOf r s false false = Ok L1 -> closureOf r s true false = Ok L2 ->
  exists M1 M2, closureOf r s false true = Ok M1 /\ closureOf r s true true = Ok M2 /\ L1 = M1 ++ [s] /\ L2 = s :: M2.
Proof.
  intros L1 L2 H1 H2. unfold closureOf in *. destruct (orderOf r s) as [k|e]; [|discriminate].
  destruct (closure_levels_head r k [s]) as (rest & E). rewrite E in *. cbn [tl] in *.
  injection H1 as <-. injection H2 as <-. eexists. eexists. split; [reflexivity|]. split; [reflexivity|].
  split; [|reflexivity]. cbn [rev]. rewrite concat_app. cbn [concat]. now rewrite app_nil_r.
Qed.

(* ---------- partOf ---------- *)
Fixpoint asc (l : list (nat * name)) : Prop :=
  match l with [] => True | p :: t => (forall q, In q t -> fst p <= fst q) /\ asc t end.
Lemma asc_insert p l : asc l -> asc (insert_by Nat.leb p l).
Proof.
  induction l as [|a l IH]; intros H; simpl; [split; [intros q []|exact I]|].
  destruct H as [Ha Hl]. destruct (fst p <=? fst a) eqn:E.
  - apply Nat.leb_le in E. simpl. split; [|split; assumption].
    intros q [<-|Hq]; [exact E|]. specialize (Ha q Hq). lia.
  - apply Nat.leb_gt in E. simpl. split; [|now apply IH].
    intros q Hq. apply In_insert_by in Hq. destruct Hq as [->|Hq]; [lia | now apply Ha].
Qed.
Lemma asc_sort l : asc (sort_asc l).
Proof. unfold sort_asc. induction l as [|a l IH]; simpl; [exact I|]. now apply asc_insert. Qed.
Lemma In_sort_asc l q : In q (sort_asc l) <-> In q l.
Proof. unfold sort_asc. induction l as [|a l IH]; simpl; [tauto|]. rewrite In_insert_by, IH. intuition. Qed.

(* C04: partOf: the variants differ by s alone, and the answer is sorted by the orders the walk recorded:
   everything but s stands strictly above s's order *)
Theorem partOf_variants r s k j : sinv r -> assoc s (r_simp r) = Some (k, j) ->
  exists A D : list (nat * name),
    partOf r s false true = Ok (map snd A) /\ partOf r s false false = Ok (s :: map snd A) /\
    partOf r s true true = Ok (map snd D) /\ partOf r s true false = Ok (map snd D ++ [s]) /\
    asc A /\ desc D /\ (forall q, In q A <-> In q D) /\
    (forall o c, In (o, c) A -> k < o /\ exists jc, assoc c (r_simp r) = Some (o, jc)).
Proof.
  intros HS As. unfold partOf, orderOf. rewrite As.
  set (P := dedup_on (partOf_aux (S (r_nord r)) r s k)).
  exists (sort_asc P), (sort_desc P).
  split; [reflexivity|]. split; [reflexivity|]. split; [reflexivity|]. split; [reflexivity|].
  split; [apply asc_sort|]. split; [apply desc_sort|]. split.
  - intros q. rewrite In_sort_asc, In_sort_desc. tauto.
  - intros o c H. apply (proj1 (In_sort_asc _ _)) in H. unfold P in H. apply In_dedup_sub in H.
    destruct (aux_orders r HS _ s k j o c As H) as [He Hlt]. split; assumption.
Qed.
