(* SnapProofs.v -- the snapshot of a filtration at its current index answers membership, order
   and faces as the filtration does there (C14), and is a faithful detached complex (C09, C13).
   Plain Coq. *)
From Coq Require Import String ZArith Bool Arith List Lia.
From SV Require Import Names NamesFacts ListFacts Rep Fresh Complex Atomic RepInv Reach Shapes ShapesReach Incidence AddEffect CopyFaithful
                       Homology Filtration FiltProofs Closed ClosedReach Smaller.
Import ListNotations.
Open Scope nat_scope.

Theorem snap_answers_as_filtration hp f uid hp' c :
  pinv (f_rep f) -> copy_new hp (f_view f) uid = (hp', c, Ok tt) ->
  sinv c /\
  (forall s, containsSimplex c s = f_contains f s) /\
  (forall s, f_contains f s = true ->
     orderOf c s = Ok (length (faces (f_rep f) s) - 1) /\ forall t, In t (faces c s) <-> In t (faces (f_rep f) s)).
Proof.
  intros P H. unfold copy_new, addSimplicesFrom in H.
  destruct (addFrom_loop hp (empty_rep uid) RNone rl0 (f_view f) []) as [[[hp1 r1] st1] [ns|e]] eqn:E; [|discriminate].
  injection H as <- <-.
  destruct (bulk_add_faithful _ _ _ _ _ _ _ _ _ (sinv_empty uid) E) as (Hinv & Hsrc & _ & Hcont).
  assert (Hnames : map fst (f_view f) = f_simplices f false).
  { unfold f_view. rewrite map_map. simpl. apply map_id. }
  assert (Hmem : forall s, In s (f_simplices f false) <-> f_contains f s = true).
  { intros s. unfold f_simplices. rewrite filter_In. split; [tauto|]. intros Hc. split; [|exact Hc].
    apply In_simplices_iff; [exact P|]. unfold f_contains in Hc. apply andb_prop in Hc. tauto. }
  split; [exact Hinv|]. split.
  - intros s. rewrite Hcont, Hnames. simpl.
    destruct (f_contains f s) eqn:Ec.
    + apply memn_In. now apply Hmem.
    + destruct (memn s (f_simplices f false)) eqn:Em; [|reflexivity]. apply memn_In, Hmem in Em. congruence.
  - intros s Hc. apply Hmem in Hc.
    assert (Hin : In (s, (faces (f_rep f) s, match assoc s (r_attr (f_rep f)) with Some h => h | None => (0, 0) end)) (f_view f)).
    { unfold f_view. apply in_map_iff. exists s. split; [reflexivity | exact Hc]. }
    destruct (Hsrc _ _ _ Hin) as (_ & Ho & Hf). split; assumption.
Qed.

(* with the face counts of a filtration built by public operations, the orders agree as well *)
Theorem snap_orders_agree hp f uid hp' c :
  cinv (f_rep f) -> copy_new hp (f_view f) uid = (hp', c, Ok tt) ->
  forall s, f_contains f s = true -> orderOf c s = orderOf (f_rep f) s.
Proof.
  intros Hc H s Hs. destruct (snap_answers_as_filtration hp f uid hp' c (s_p _ (c_s _ Hc)) H) as (_ & _ & Hq).
  destruct (Hq s Hs) as [Ho _]. rewrite Ho.
  unfold f_contains in Hs. apply andb_prop in Hs. destruct Hs as [Hs _].
  apply (contains_iff_listed (f_rep f) s (s_p _ (c_s _ Hc))) in Hs. destruct Hs as (k & Hk).
  rewrite (order_of_listed _ k s (s_p _ (c_s _ Hc)) Hk). f_equal. now apply (cinv_face_counts _ Hc).
Qed.
