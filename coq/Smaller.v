(* Smaller.v -- deleting a simplex makes a complex strictly smaller (C10), and a copy of a complex
   built by public operations equals it.  Plain Coq. *)
From Coq Require Import String ZArith Bool Arith List Lia.
From SV Require Import Names NamesFacts ListFacts Rep Fresh Complex Atomic RepInv Reach Shapes ShapesReach Incidence AddEffect CopyFaithful Cmp.
From SV Require Import DelEffect StarOrder Closed ClosedReach.
Import ListNotations.
Open Scope nat_scope.

Lemma forceDelete_smaller r s k i : sinv r -> assoc s (r_simp r) = Some (k, i) ->
  let r' := fst (forceDeleteSimplex r s) in
  c_le r' r = true /\ numberOfSimplices r' < numberOfSimplices r.
Proof.
  intros HS As r'. pose proof (d_sinv r s k i HS As) as HS'. fold r' in HS'.
  pose proof (s_p r HS) as P. pose proof (s_p r' HS') as P'. split.
  - apply le_iff. intros k0 t Hk0 Ht.
    assert (Hc' : containsSimplex r' t = true) by (apply contains_iff_listed; eauto).
    destruct (d_sub r s k i HS As t Hc') as [Hc Hne].
    unfold containsSimplex in Hc. destruct (assoc t (r_simp r)) as [[kt it]|] eqn:At; [|discriminate].
    destruct (d_pos r s k i HS As t kt it Hne At) as (_ & At' & _). fold r' in At'.
    pose proof (order_of_listed r' k0 t P' Ht) as Ho. unfold orderOf in Ho. rewrite At' in Ho. injection Ho as ->.
    split; [unfold containsSimplex; now rewrite At|]. split; [unfold orderOf; now rewrite At|].
    intros u Hu. destruct (d_faces r s k i HS As t k0 it Hne At) as [Hf _]. apply Hf in Hu. tauto.
  - rewrite !numberOfSimplices_length by assumption.
    assert (Hs_in : In s (simplices r false)) by (apply In_simplices_iff; [exact P|]; unfold containsSimplex; now rewrite As).
    assert (Hincl : incl (s :: simplices r' false) (simplices r false)).
    { intros t [<-|Ht]; [exact Hs_in|]. apply In_simplices_iff in Ht; [|exact P']. apply In_simplices_iff; [exact P|].
      now destruct (d_sub r s k i HS As t Ht). }
    assert (Hnd : NoDup (s :: simplices r' false)).
    { constructor; [|apply simplices_nodup; exact P']. intros Hin. apply In_simplices_iff in Hin; [|exact P'].
      pose proof (d_gone r s k i HS As) as Hg. fold r' in Hg. congruence. }
    pose proof (NoDup_incl_length Hnd Hincl) as Hlen. cbn [length] in Hlen. lia.
Qed.

Lemma fold_delete_smaller : forall (L : list name) rc,
  sinv rc -> NoDup L -> (forall t, In t L -> containsSimplex rc t = true) ->
  forall r' x, fold_left del_step L (rc, Ok tt) = (r', x) ->
  sinv r' /\ c_le r' rc = true /\ numberOfSimplices r' + length L <= numberOfSimplices rc.
Proof.
  induction L as [|t L IH]; intros rc HS Hnd Hin r' x H; simpl in H.
  - injection H as <- _. split; [exact HS|]. split; [apply le_refl, (s_p rc HS) | simpl; lia].
  - inversion Hnd as [|y ys Hy Hys]; subst.
    assert (Hct : containsSimplex rc t = true) by (apply Hin; now left).
    unfold containsSimplex in Hct. destruct (assoc t (r_simp rc)) as [[k i]|] eqn:At; [|discriminate].
    pose proof (del_ok rc t k i At) as Hok. rewrite Hok in H.
    destruct (forceDelete_smaller rc t k i HS At) as [Hle1 Hlt1].
    set (r1 := fst (forceDeleteSimplex rc t)) in *.
    assert (HS1 : sinv r1) by (apply (d_sinv rc t k i HS At)).
    assert (Hin1 : forall t', In t' L -> containsSimplex r1 t' = true).
    { intros t' Ht'. assert (Hne : t' <> t) by (intros ->; contradiction).
      assert (Hc' : containsSimplex rc t' = true) by (apply Hin; now right).
      unfold containsSimplex in Hc'. destruct (assoc t' (r_simp rc)) as [[k2 i2]|] eqn:A2; [|discriminate].
      destruct (d_pos rc t k i HS At t' k2 i2 Hne A2) as (_ & A' & _). unfold containsSimplex. fold r1 in A'. now rewrite A'. }
    destruct (IH r1 HS1 Hys Hin1 r' x H) as (HS' & Hle & Hcnt).
    split; [exact HS'|]. split.
    + apply (le_trans r' r1 rc); [exact (s_p r1 HS1) | exact Hle | exact Hle1].
    + simpl. lia.
Qed.

(* deleting a simplex of the complex leaves a strictly smaller complex *)
Theorem deleteSimplex_strictly_smaller r s r' x : sinv r -> containsSimplex r s = true ->
  deleteSimplex r s = (r', x) -> c_lt r' r = true.
Proof.
  intros HS Hc H. unfold deleteSimplex in H.
  unfold containsSimplex in Hc. destruct (assoc s (r_simp r)) as [[k is]|] eqn:As; [|discriminate].
  destruct (partOf r s true false) as [L|e] eqn:EP.
  2: { unfold partOf, orderOf in EP. rewrite As in EP. discriminate. }
  destruct (star_positions r HS s k is L As EP) as (Hnd & Hin & _).
  destruct (fold_delete_smaller L r HS Hnd Hin r' x H) as (_ & Hle & Hcnt).
  unfold c_lt. rewrite Hle. simpl. apply Nat.ltb_lt.
  assert (0 < length L).
  { unfold partOf, orderOf in EP. rewrite As in EP. injection EP as <-. rewrite app_length. simpl. lia. }
  lia.
Qed.

(* a complex built by public operations has the right face counts, so it equals its copy *)
Lemma cinv_face_counts r : cinv r -> face_counts r.
Proof.
  intros Hc k t Ht. pose proof (order_of_listed r k t (s_p r (c_s r Hc)) Ht) as Ho.
  destruct (faces_of_a_simplex r t k Hc Ho) as (_ & _ & Hl). rewrite Hl. destruct k; simpl; lia.
Qed.

Theorem copy_equals_source_public hp a uid hp' c : cinv a ->
  copy_new hp (view_of a) uid = (hp', c, Ok tt) -> c_eq a c = true.
Proof. intros Hc. apply copy_equals_source; [exact (s_p a (c_s a Hc)) | now apply cinv_face_counts]. Qed.
