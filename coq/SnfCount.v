(* SnfCount.v -- counting zero columns / non-zero rows of a matrix in partial-identity form
   (what bettiNumbers and Z do with a Smith normal form).  Plain Coq. *)
From Coq Require Import String ZArith Bool Arith List Lia.
From SV Require Import Names Rep Complex Homology ListMat.
Import ListNotations.
Open Scope nat_scope.

Definition pidform (nr nc r : nat) (D : bmat) : Prop :=
  wfm nr nc D /\ r <= nr /\ r <= nc /\
  forall i j, i < nr -> j < nc -> entry D i j = (i =? j) && (i <? r).

Lemma filter_ext_in' {A} (p q : A -> bool) l : (forall x, In x l -> p x = q x) -> filter p l = filter q l.
Proof.
  induction l as [|h t IH]; intros H; simpl; auto.
  rewrite (H h) by (left; auto). rewrite IH; auto. intros x Hx. apply H. right; auto.
Qed.

Lemma filter_none {A} (p : A -> bool) l : (forall x, In x l -> p x = false) -> filter p l = [].
Proof. induction l as [|h t IH]; intros H; simpl; auto. rewrite (H h) by (left; auto). apply IH. intros; apply H; right; auto. Qed.

Lemma filter_all {A} (p : A -> bool) l : (forall x, In x l -> p x = true) -> filter p l = l.
Proof. induction l as [|h t IH]; intros H; simpl; auto. rewrite (H h) by (left; auto). f_equal. apply IH. intros; apply H; right; auto. Qed.

(* how many j < n satisfy a predicate that is "j >= r" *)
Lemma count_ge p n r : r <= n -> (forall j, j < n -> p j = negb (j <? r)) ->
  length (filter p (seq 0 n)) = n - r.
Proof.
  intros Hr Hp. replace n with (r + (n - r)) at 1 by lia. rewrite seq_app, filter_app, app_length.
  rewrite filter_none, filter_all; simpl.
  - rewrite seq_length. lia.
  - intros j Hj. apply in_seq in Hj. rewrite Hp by lia. destruct (j <? r) eqn:E; auto. apply Nat.ltb_lt in E. lia.
  - intros j Hj. apply in_seq in Hj. rewrite Hp by lia. destruct (j <? r) eqn:E; auto. apply Nat.ltb_ge in E. lia.
Qed.

Lemma count_lt p n r : r <= n -> (forall j, j < n -> p j = (j <? r)) ->
  length (filter p (seq 0 n)) = r.
Proof.
  intros Hr Hp. replace n with (r + (n - r)) at 1 by lia. rewrite seq_app, filter_app, app_length.
  rewrite filter_all, filter_none; simpl.
  - rewrite seq_length. lia.
  - intros j Hj. apply in_seq in Hj. rewrite Hp by lia. destruct (j <? r) eqn:E; auto. apply Nat.ltb_lt in E. lia.
  - intros j Hj. apply in_seq in Hj. rewrite Hp by lia. destruct (j <? r) eqn:E; auto. apply Nat.ltb_ge in E. lia.
Qed.

(* filtering a list by a property of its elements = filtering its indices *)
Lemma filter_seq_shift (q : nat -> bool) n s :
  length (filter q (seq (S s) n)) = length (filter (fun i => q (S i)) (seq s n)).
Proof.
  revert s; induction n as [|n IH]; intros s; simpl; auto.
  destruct (q (S s)); simpl; rewrite IH; auto.
Qed.

Lemma filter_by_index {A} (d : A) (p : A -> bool) l :
  length (filter p l) = length (filter (fun i => p (nth i l d)) (seq 0 (length l))).
Proof.
  induction l as [|h t IH]; simpl; auto.
  destruct (p h); simpl; rewrite filter_seq_shift; simpl; rewrite IH; reflexivity.
Qed.

Lemma forallb_nth {A} (d : A) (p : A -> bool) l :
  forallb p l = true <-> forall i, i < length l -> p (nth i l d) = true.
Proof.
  rewrite forallb_forall. split.
  - intros H i Hi. apply H. now apply nth_In.
  - intros H x Hx. destruct (In_nth _ _ d Hx) as [i [Hi <-]]. now apply H.
Qed.

Lemma kernelDim_pid nr nc r D : pidform nr nc r D -> kernelDim (nr, nc, D) = nc - r.
Proof.
  intros (HM & Hr1 & Hr2 & He). unfold kernelDim.
  apply count_ge; auto. intros j Hj. unfold col_is_zero.
  destruct HM as [HL HF].
  destruct (j <? r) eqn:E; simpl.
  - apply Nat.ltb_lt in E. apply not_true_is_false. intros Hc.
    rewrite (forallb_nth []) in Hc. specialize (Hc j). rewrite HL in Hc.
    assert (Hjn : j < nr) by lia. specialize (Hc Hjn).
    change (nth j (nth j D []) false) with (entry D j j) in Hc.
    rewrite He in Hc by lia. rewrite Nat.eqb_refl in Hc. apply Nat.ltb_lt in E. rewrite E in Hc. discriminate.
  - apply Nat.ltb_ge in E. apply (forallb_nth []). intros i Hi. rewrite HL in Hi.
    change (nth j (nth i D []) false) with (entry D i j). rewrite He by lia.
    destruct (i =? j) eqn:E1; simpl; auto. apply Nat.eqb_eq in E1. subst i.
    destruct (j <? r) eqn:E2; auto. apply Nat.ltb_lt in E2. lia.
Qed.

Lemma existsb_nth (row : list bool) : existsb (fun b => b) row = true <-> exists j, j < length row /\ nth j row false = true.
Proof.
  rewrite existsb_exists. split.
  - intros [b [Hin Hb]]. subst b. destruct (In_nth _ _ false Hin) as [j [Hj Hn]]. exists j. auto.
  - intros [j [Hj Hn]]. exists true. split; auto. rewrite <- Hn. now apply nth_In.
Qed.

Lemma imageDim_pid nr nc r D : pidform nr nc r D -> imageDim (nr, nc, D) = r.
Proof.
  intros (HM & Hr1 & Hr2 & He). unfold imageDim.
  rewrite (filter_by_index []). destruct HM as [HL HF]. rewrite HL.
  apply count_lt; auto. intros i Hi.
  assert (Hrow : length (nth i D []) = nc).
  { apply (wfm_row nr nc); [split; assumption | assumption]. }
  destruct (i <? r) eqn:E.
  - apply Nat.ltb_lt in E. apply existsb_nth. exists i. split; [lia|].
    change (nth i (nth i D []) false) with (entry D i i). rewrite He by lia.
    rewrite Nat.eqb_refl. apply Nat.ltb_lt in E. now rewrite E.
  - apply not_true_is_false. intros Hc. apply existsb_nth in Hc. destruct Hc as [j [Hj Hn]].
    change (nth j (nth i D []) false) with (entry D i j) in Hn. rewrite He in Hn by lia.
    rewrite E in Hn. rewrite andb_false_r in Hn. discriminate.
Qed.

(* rows_of a column-major matrix is always well shaped *)
Lemma wfm_rows_of (m : mat) : wfm (nrows m) (ncols m) (rows_of m).
Proof.
  split.
  - unfold rows_of. now rewrite map_length, seq_length.
  - unfold rows_of. rewrite Forall_forall. intros r Hr. apply in_map_iff in Hr.
    destruct Hr as [i [<- _]]. unfold getrow, ncols. now rewrite map_length.
Qed.

Lemma entry_rows_of (m : mat) i j : i < nrows m -> entry (rows_of m) i j = nth i (nth j (mcols m) []) false.
Proof.
  intros Hi. unfold entry, rows_of.
  rewrite (nth_indep _ [] (getrow 0 m)) by (now rewrite map_length, seq_length).
  rewrite (map_nth (fun i => getrow i m)). rewrite seq_nth by auto. simpl.
  unfold getrow.
  destruct (Nat.lt_ge_cases j (length (mcols m))) as [Hj|Hj].
  - rewrite (nth_indep _ false (nth i [] false)) by (now rewrite map_length).
    now rewrite (map_nth (fun c => nth i c false)).
  - rewrite (nth_overflow (map _ _)) by (now rewrite map_length).
    rewrite (nth_overflow (mcols m)) by assumption. now destruct i.
Qed.

Lemma nth_repeat {A} (x d : A) n : forall i, nth i (repeat x n) d = if i <? n then x else d.
Proof. induction n as [|n IH]; intros [|i]; simpl; auto. rewrite IH. reflexivity. Qed.

Lemma entry_zeros a b i j : entry (rows_of (zeros a b)) i j = false.
Proof.
  destruct (Nat.lt_ge_cases i a) as [Hi|Hi].
  - rewrite entry_rows_of by (simpl; auto). simpl. rewrite nth_repeat.
    destruct (j <? b).
    + rewrite nth_repeat. now destruct (i <? a).
    + now destruct i.
  - unfold entry, rows_of. rewrite (nth_overflow (map _ _)).
    + now destruct j.
    + rewrite map_length, seq_length. simpl. exact Hi.
Qed.
