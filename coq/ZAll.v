(* ZAll.v -- Z(k) returns a basis of the cycle group of order k, for every complex satisfying the
   representation and shape invariants (every complex of every history): as many chains as the
   nullity of the boundary operator, each a cycle, linearly independent mod 2 (C07). *)
From Coq Require Import ZArith Lia.
From mathcomp Require Import all_ssreflect all_fingroup all_algebra.
From SV Require Import Names ListFacts Rep Complex Homology ListMat SnfCount Rank Betti RepInv ZProofs ZCycles ZProofs2 ZIndep Shapes ShapesReach.
Set Implicit Arguments.
Unset Strict Implicit.
Unset Printing Implicit Defensive.

Theorem Z1_independent_all r k : sinv r ->
  \rank (mxf (length (simplicesOfOrder r k)) (length (Z1 r k))
             (fun t j => par (lab_in (simplicesOfOrder r k)) (List.nth j (Z1 r k) nil) t)) = length (Z1 r k).
Proof.
move=> H; apply: Z1_independent.
- by apply: simplicesOfOrder_nodup; exact: (s_p r H).
- exact: boundary_ncols.
Qed.

(* the three clauses together *)
Theorem Z1_is_a_cycle_basis r k : sinv r ->
  length (Z1 r k) = (length (simplicesOfOrder r k) - rk (boundaryOperator r k))%coq_nat /\
  (forall ch, List.In ch (Z1 r k) ->
     forall i, (i < nrows (boundaryOperator r k))%coq_nat -> vsum name (colval r k) ch i = false) /\
  \rank (mxf (length (simplicesOfOrder r k)) (length (Z1 r k))
             (fun t j => par (lab_in (simplicesOfOrder r k)) (List.nth j (Z1 r k) nil) t)) = length (Z1 r k).
Proof.
move=> H; split; first exact: Z1_count.
split; last exact: Z1_independent_all.
by move=> ch Hin i Hi; apply: (@Z1_are_cycles r k ch H Hin i Hi).
Qed.
