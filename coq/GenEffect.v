(* GenEffect.v -- C18 for every k, every n and every target: what k_skeleton(k) and ring(n) add when they succeed.
   k_skeleton(k): k+1 new points and one new edge for each of the C(k+1, 2) pairs of them, nothing else;
   ring(n): n new points p_0 .. p_(n-1) and the n edges {p_i, p_(i+1)}, {p_(n-1), p_0}, nothing else.
   Every accepted addSimplex adds exactly one simplex, new, with the faces it was given (AddEffect).  Plain Coq. *)
From Coq Require Import String ZArith Bool Arith List Lia.
From SV Require Import Names NamesFacts ListFacts Rep Fresh Complex Atomic RepInv Reach Shapes Incidence AddEffect
                       Closed ClosedReach Homology Gen FiltProofs Counts.
Import ListNotations.
Open Scope nat_scope.

(* r' is r plus the simplices `news` (all new, each once), the i-th with faces fss_i; everything of r is kept *)
Record plus (r : rep) (news : list name) (fss : list (list name)) (r' : rep) : Prop := {
  p_s : sinv r';
  p_nd : NoDup news;
  p_new : forall s, In s news -> containsSimplex r s = false;
  p_mem : forall s, containsSimplex r' s = containsSimplex r s || memn s news;
  p_len : length news = length fss;
  p_faces : forall i s fs, nth_error news i = Some s -> nth_error fss i = Some fs ->
            orderOf r' s = Ok (length fs - 1) /\ forall t, In t (faces r' s) <-> In t fs;
  p_old : forall s, containsSimplex r s = true -> orderOf r' s = orderOf r s /\ faces r' s = faces r s }.

Lemma plus_nil r : sinv r -> plus r [] [] r.
Proof.
  intros Sr. refine {| p_s := Sr |}.
  - constructor.
  - intros x [].
  - intros x. simpl. now rewrite orb_false_r.
  - reflexivity.
  - intros [|i] x fs H; discriminate.
  - intros x _. split; reflexivity.
Qed.

Lemma plus_snoc r news fss r1 fs id attr r2 n : sinv r -> plus r news fss r1 ->
  addSimplex r1 fs id attr = (r2, Ok n) -> plus r (news ++ [n]) (fss ++ [fs]) r2.
Proof.
  intros Sr [S1 Nd New Mem Len Fa Old] H.
  destruct (addSimplex_effect r1 fs id attr r2 n S1 H) as (Hn & _ & Ho & Hf & Hold & Hall).
  assert (Hnr : containsSimplex r n = false /\ ~ In n news).
  { rewrite Mem in Hn. apply orb_false_iff in Hn. destruct Hn as [A B]. split; [exact A|]. intros Hin. apply memn_In in Hin. congruence. }
  constructor.
  - eapply addSimplex_sinv; eauto.
  - apply NoDup_app_snoc; [exact Nd|tauto].
  - intros s Hs. apply in_app_or in Hs. destruct Hs as [Hs|[<-|[]]]; [now apply New|tauto].
  - intros s. rewrite Hall, Mem. unfold memn. rewrite existsb_app. simpl. now rewrite orb_false_r, orb_assoc.
  - rewrite !app_length, Len. reflexivity.
  - intros i s fs0 Hs Hfs. destruct (Nat.lt_ge_cases i (length news)) as [Hl|Hl].
    + rewrite nth_error_app1 in Hs by exact Hl. rewrite nth_error_app1 in Hfs by (now rewrite <- Len).
      destruct (Fa i s fs0 Hs Hfs) as [O F].
      assert (C1 : containsSimplex r1 s = true) by (rewrite Mem; apply orb_true_iff; right; apply memn_In; eapply nth_error_In; eauto).
      destruct (Hold s C1) as (O2 & _ & F2 & _). rewrite O2, F2. auto.
    + rewrite nth_error_app2 in Hs by exact Hl. rewrite nth_error_app2 in Hfs by (now rewrite <- Len).
      rewrite Len in Hs. destruct (i - length fss) as [|j]; [|destruct j; discriminate].
      simpl in Hs, Hfs. injection Hs as <-. injection Hfs as <-. auto.
  - intros s Cs. assert (C1 : containsSimplex r1 s = true) by (rewrite Mem, Cs; reflexivity).
    destruct (Hold s C1) as (O2 & _ & F2 & _). destruct (Old s Cs) as [O F]. rewrite O2, F2. auto.
Qed.

(* n calls of addSimplex(): n new points *)
Lemma add_points_plus : forall n r0 news fss r acc r' ss, sinv r0 -> plus r0 news fss r ->
  add_points n r acc = (r', Ok ss) ->
  exists pts, ss = acc ++ pts /\ length pts = n /\ plus r0 (news ++ pts) (fss ++ repeat [] n) r'.
Proof.
  induction n as [|n IH]; intros r0 news fss r acc r' ss S0 P H; simpl in H.
  - injection H as <- <-. exists []. rewrite !app_nil_r. auto.
  - destruct (addSimplex r [] None None) as [r1 [s|e]] eqn:E; simpl in H; [|discriminate].
    pose proof (plus_snoc r0 news fss r [] None None r1 s S0 P E) as P1.
    destruct (IH r0 _ _ r1 (acc ++ [s]) r' ss S0 P1 H) as (pts & -> & L & P').
    exists (s :: pts). split; [now rewrite <- app_assoc|]. split; [simpl; now rewrite L|].
    rewrite <- !app_assoc in P'. exact P'.
Qed.

Lemma add_edges_plus : forall ps r0 news fss r r', sinv r0 -> plus r0 news fss r ->
  add_edges r ps = (r', Ok tt) -> exists es, length es = length ps /\ plus r0 (news ++ es) (fss ++ ps) r'.
Proof.
  induction ps as [|p ps IH]; intros r0 news fss r r' S0 P H; simpl in H.
  - injection H as <-. exists []. rewrite !app_nil_r. auto.
  - destruct (addSimplex r p None None) as [r1 [s|e]] eqn:E; simpl in H; [|discriminate].
    pose proof (plus_snoc r0 news fss r p None None r1 s S0 P E) as P1.
    destruct (IH r0 _ _ r1 r' S0 P1 H) as (es & L & P').
    exists (s :: es). split; [simpl; now rewrite L|]. rewrite <- !app_assoc in P'. exact P'.
Qed.

(* k_skeleton(k): k+1 new points and one new edge for each pair of them *)
Theorem k_skeleton_effect k r0 r' : sinv r0 -> k_skeleton k r0 = (r', Ok tt) ->
  exists pts es, length pts = S k /\ length es = binom (S k) 2 /\
    plus r0 (pts ++ es) (repeat [] (S k) ++ combs 2 pts) r'.
Proof.
  intros S0 H. unfold k_skeleton in H.
  destruct (add_points (S k) r0 []) as [r1 [ss|e]] eqn:E1; simpl in H; [|discriminate].
  destruct (add_points_plus (S k) r0 [] [] r0 [] r1 ss S0 (plus_nil r0 S0) E1) as (pts & -> & L & P1). simpl in P1.
  destruct (add_edges_plus (combs 2 pts) r0 _ _ r1 r' S0 P1 H) as (es & Le & P2). simpl in P2.
  exists pts, es. split; [exact L|]. split; [now rewrite Le, combs_count, L|exact P2].
Qed.

(* ring(n): n new points and the n edges of one cycle through them in the order of creation *)
Theorem ring_effect n r0 r' : sinv r0 -> ring n r0 = (r', Ok tt) ->
  2 < n /\ exists pts es, length pts = n /\ length es = n /\
    plus r0 (pts ++ es)
         (repeat [] n ++ map (fun i => [nth i pts (NInt 0); nth (S i) pts (NInt 0)]) (seq 0 (n - 1))
                     ++ [[nth (n - 1) pts (NInt 0); nth 0 pts (NInt 0)]]) r'.
Proof.
  intros S0 H. unfold ring in H. destruct (n <=? 2) eqn:En; [discriminate|]. apply Nat.leb_gt in En. split; [exact En|].
  destruct (add_points n r0 []) as [r1 [ss|e]] eqn:E1; simpl in H; [|discriminate].
  destruct (add_points_plus n r0 [] [] r0 [] r1 ss S0 (plus_nil r0 S0) E1) as (pts & -> & L & P1). simpl in P1, H.
  destruct (add_edges r1 _) as [r2 [[]|e]] eqn:E2; simpl in H; [|discriminate].
  destruct (add_edges_plus _ r0 _ _ r1 r2 S0 P1 E2) as (es & Le & P2).
  destruct (addSimplex r2 _ None None) as [r3 [s|e]] eqn:E3; simpl in H; [|discriminate]. injection H as <-.
  pose proof (plus_snoc r0 _ _ r2 _ None None r3 s S0 P2 E3) as P3.
  exists pts, (es ++ [s]). split; [exact L|]. split.
  - rewrite app_length, Le, map_length, seq_length. simpl. lia.
  - rewrite <- !app_assoc in P3. exact P3.
Qed.
