(* ZIndep.v -- the chains returned by Z() are linearly independent mod 2 (C07).  The label lists
   carried by _reduceBoundaries, read as parity vectors over the original columns, form at every
   stage an invertible matrix over GF(2) (column exchanges and column additions preserve the rank,
   which starts as that of the identity); the returned chains are some of its columns. *)
From Coq Require Import ZArith Lia.
From mathcomp Require Import all_ssreflect all_fingroup all_algebra.
From SV Require Import Names ListFacts Rep Complex Homology ListMat SnfCount Rank Betti ZProofs.
From SV Require ZCycles.
Set Implicit Arguments.
Unset Strict Implicit.
Unset Printing Implicit Defensive.
Import GRing.Theory.
Local Open Scope ring_scope.

Lemma rank_colswap m n x l (f : nat -> nat -> bool) : (x < n)%N -> (l < n)%N ->
  \rank (mxf m n (fun i j => f i (sw x l j))) = \rank (mxf m n f).
Proof.
move=> Hx Hl.
apply: (@rank_cols_perm _ _ _ _ (tperm (Ordinal Hx) (Ordinal Hl))) => j.
by apply/colP => i; rewrite !mxE -sw_tperm.
Qed.

Lemma rank_coladd m n x (c : nat -> bool) (f : nat -> nat -> bool) : (x < n)%N ->
  \rank (mxf m n (fun i j => if Nat.ltb x j && c j then xorb (f i j) (f i x) else f i j)) = \rank (mxf m n f).
Proof.
move=> Hx.
pose cc (j : 'I_n) : F2 := b2f (Nat.ltb x j && c j).
apply: (@rank_cols_add _ _ _ _ (Ordinal Hx) cc).
- by rewrite /cc /= ltb_ltn ltnn.
- move=> j; apply/colP => i; rewrite !mxE /cc /=.
  case: (Nat.ltb x j && c j); first by rewrite b2f_xor mul1r.
  by rewrite mul0r addr0.
Qed.

Section Indep.
Variables (L : Type) (lab : L -> nat).

(* the parity vector of a chain: how often (mod 2) it mentions the simplex with label t *)
Definition par (l : list L) (t : nat) : bool :=
  List.fold_right (fun s acc => xorb (Nat.eqb (lab s) t) acc) false l.

Lemma par_app l1 l2 t : par (l1 ++ l2) t = xorb (par l1 t) (par l2 t).
Proof.
rewrite /par; elim: l1 => [|s l1 IH] /=; first by case: (List.fold_right _ _ _).
by rewrite IH Bool.xorb_assoc.
Qed.

Definition Pf (cls : list (list L)) : nat -> nat -> bool := fun t j => par (List.nth j cls nil) t.

Variables (rb cb : nat).

Lemma step_Pf_rank x k l M (cls : list (list L)) : length cls = cb -> (x < cb)%coq_nat -> (l < cb)%coq_nat ->
  \rank (mxf cb cb (Pf (snd (reduce_step x k l M cls)))) = \rank (mxf cb cb (Pf cls)).
Proof.
move=> Hlen Hx Hl.
rewrite /reduce_step [snd _]/=.
set cls2 := swap nil x l cls.
set prow3 := List.nth x _ nil.
pose pr j := List.nth j prow3 false.
have Hc2 : forall j, List.nth j cls2 nil = List.nth (sw x l j) cls nil.
  by move=> j; rewrite /cls2 nth_swap // Hlen.
have Hl2 : length cls2 = cb by rewrite /cls2 length_swap.
have E : forall t j, (t < cb)%N -> (j < cb)%N ->
    Pf (mapi (fun j c => if Nat.ltb x j && List.nth j prow3 false then (c ++ List.nth x cls2 nil)%list else c) cls2) t j =
    (fun i j => if Nat.ltb x j && pr j then xorb (Pf cls i (sw x l j)) (Pf cls i (sw x l x)) else Pf cls i (sw x l j)) t j.
  move=> t j _ /ltP Hj. rewrite /Pf (@ZCycles.nth_mapi _ _ _ nil nil) ?Hl2 // /pr.
  case: (Nat.ltb x j && List.nth j prow3 false); last by rewrite Hc2.
  by rewrite par_app !Hc2.
rewrite (mxf_ext E).
rewrite (@rank_coladd cb cb x pr (fun i j => Pf cls i (sw x l j))); last by apply/ltP.
by apply: rank_colswap; apply/ltP.
Qed.

Lemma reduce_Pf_rank fuel : forall x M (cls : list (list L)), wfm rb cb M -> length cls = cb ->
  \rank (mxf cb cb (Pf (snd (reduce fuel x M cls)))) = \rank (mxf cb cb (Pf cls)).
Proof.
elim: fuel => [|fuel IH] x M cls HM Hlen; first by [].
rewrite reduce_S.
case Hp: (find_pivot x M) => [[k l]|]; last by [].
have [Hxk [Hk [Hxl [Hl Hkl]]]] := @find_pivot_some rb cb x M k l HM Hp.
have Hx : (x < rb)%coq_nat by lia. have Hxc : (x < cb)%coq_nat by lia.
have Hs := @step_Pf_rank x k l M cls Hlen Hxc Hl.
have Hw := @step_wfm rb cb x k l M HM Hx Hk Hxc Hl L cls.
have Hn := @reduce_step_labels L x k l M cls.
move: Hs Hw Hn. case: (reduce_step x k l M cls) => M' cls' /= Hs Hw Hn.
by rewrite IH // ?Hn // Hs.
Qed.
End Indep.

(* ---------- a selection of columns of a matrix of full column rank has full column rank ---------- *)
Lemma mxf_tr m n f : (mxf m n f)^T = mxf n m (fun i j => f j i).
Proof. by apply/matrixP => i j; rewrite !mxE. Qed.

Lemma cols_of_full_rank n r0 nz (f : nat -> nat -> bool) : (r0 + nz = n)%N ->
  \rank (mxf n n f) = n -> \rank (mxf n nz (fun t j => f t (r0 + j)%N)) = nz.
Proof.
move=> Hn Hfull.
have Hb : forall j : 'I_nz, (r0 + j < n)%N by move=> j; rewrite -Hn ltn_add2l.
pose S : 'M[F2]_(nz, n) := \matrix_(j, i) ((i == r0 + j :> nat)%N)%:R.
have HQ : (mxf n nz (fun t j => f t (r0 + j)%N))^T = S *m (mxf n n f)^T.
  apply/matrixP => j t; rewrite !mxE (bigD1 (Ordinal (Hb j))) //= big1 ?addr0; last first.
    move=> i Hi; rewrite !mxE.
    have -> : (i == r0 + j :> nat)%N = false.
      by apply/negbTE; move: Hi; apply: contra => /eqP H; apply/eqP/val_inj.
    by rewrite mul0r.
  by rewrite !mxE eqxx mul1r.
have Hfree : row_free (mxf n n f)^T by rewrite /row_free mxrank_tr Hfull.
rewrite -mxrank_tr HQ mxrankMfree //.
apply/eqP; rewrite -/(row_free S); apply/row_freeP; exists S^T.
apply/matrixP => j j'; rewrite !mxE (bigD1 (Ordinal (Hb j))) //= big1 ?addr0; last first.
  move=> i Hi; rewrite !mxE.
  have -> : (i == r0 + j :> nat)%N = false.
    by apply/negbTE; move: Hi; apply: contra => /eqP H; apply/eqP/val_inj.
  by rewrite mul0r.
rewrite !mxE eqxx mul1r eqn_add2l.
by rewrite (inj_eq val_inj) eq_sym.
Qed.

(* ---------- Z() ---------- *)
From SV Require Import RepInv.

Definition lab_in (names : list name) (s : name) : nat :=
  match index_of s names with Some t => t | None => length names end.

Lemma nth_skipn_add (A : Type) (d : A) (l : list A) n j : List.nth j (List.skipn n l) d = List.nth (n + j)%coq_nat l d.
Proof. by elim: n l j => [|n IH] [|a l] j //=; case: j. Qed.

Lemma Pf_init names : List.NoDup names ->
  mxf (length names) (length names) (Pf (lab_in names) (List.map (fun s => [:: s]) names)) = 1%:M.
Proof.
move=> Hnd; apply/matrixP => t j; rewrite !mxE /Pf.
have Hj : (j < length names)%coq_nat by apply/ltP.
pose d := NInt Z0.
rewrite (List.nth_indep _ nil [:: d]); last by rewrite List.map_length.
rewrite (List.map_nth (fun s => [:: s])) /= /lab_in.
rewrite (@index_of_nth (List.nth j names d) names j Hnd); last exact: List.nth_error_nth'.
rewrite Bool.xorb_false_r eqb_eqn /b2f eq_sym.
by rewrite (inj_eq val_inj).
Qed.

(* the chains returned by Z(k), as parity vectors over the k-simplices in listing order, are
   linearly independent over GF(2): the matrix having them as columns has rank = their number *)
Theorem Z1_independent r k :
  List.NoDup (simplicesOfOrder r k) ->
  ncols (boundaryOperator r k) = length (simplicesOfOrder r k) ->
  \rank (mxf (length (simplicesOfOrder r k)) (length (Z1 r k))
             (fun t j => par (lab_in (simplicesOfOrder r k)) (List.nth j (Z1 r k) nil) t)) = length (Z1 r k).
Proof.
move=> Hnd Hshape. rewrite /Z1.
set B := boundaryOperator r k. set names := simplicesOfOrder r k.
set cls := List.map _ _.
have HM := wfm_rows_of B.
have Hlc : length cls = ncols B by rewrite /cls List.map_length Hshape.
have Hl := @reduce_labels name (Nat.min (nrows B) (ncols B)) 0 (rows_of B) cls.
have Hr := @reduce_Pf_rank name (lab_in names) (nrows B) (ncols B) (Nat.min (nrows B) (ncols B)) 0 (rows_of B) cls HM Hlc.
move: Hl Hr. rewrite /reduceB.
case: (reduce _ 0 (rows_of B) cls) => A cls' /= Hl Hr.
set r0 := (ncols B - _)%coq_nat.
have Hr0 : (r0 <= ncols B)%coq_nat by rewrite /r0; lia.
have Hfull : \rank (mxf (length names) (length names) (Pf (lab_in names) cls')) = length names.
  move: Hr; rewrite Hshape => ->. by rewrite /cls Pf_init // mxrank1.
have Hlz : length (List.skipn r0 cls') = (length names - r0)%coq_nat.
  by rewrite List.skipn_length Hl Hlc Hshape.
rewrite Hlz.
have Hsum : (r0 + (length names - r0)%coq_nat = length names)%N.
  by rewrite -plusE; move: Hr0; rewrite Hshape -/names; lia.
rewrite -[RHS](@cols_of_full_rank (length names) r0 (length names - r0)%coq_nat (Pf (lab_in names) cls') Hsum Hfull).
congr (\rank _); apply: mxf_ext => t j _ _.
by rewrite /Pf nth_skipn_add.
Qed.
