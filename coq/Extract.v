(* Extract.v -- extraction of the executable model for the correspondence driver.
   Directives used: ExtrOcamlBasic (bool, option, list, prod, unit, sumbool -> OCaml's),
   ExtrOcamlString (ascii -> char, string -> char list).  nat, Z, positive stay the
   extracted inductive types.  No Extract Constant of our own. *)
From Coq Require Import Extraction ExtrOcamlBasic ExtrOcamlString.
From SV Require Import Names Rep Complex Homology Filtration Gen World.
Set Extraction Output Directory ".".
Extraction "model.ml" world0 exec snapshot_of identities reduceB isClosed kernelDim imageDim.
