(* EulerP.v -- Euler-Poincare: the alternating sum of the Betti numbers equals the alternating sum
   of the numbers of columns of the boundary operators (telescoping of the ranks), hence the Euler
   characteristic wherever the operators have one column per simplex (C06 / C19). *)
From Coq Require Import ZArith Lia.
From mathcomp Require Import all_ssreflect all_fingroup all_algebra.
From SV Require Import Names Rep Complex Homology ListMat SnfCount Rank Betti.
Set Implicit Arguments.
Unset Strict Implicit.
Unset Printing Implicit Defensive.

Fixpoint alt_sumZ (sign : Z) (l : list Z) : Z :=
  match l with
  | nil => Z0
  | cons x t => Z.add (Z.mul sign x) (alt_sumZ (Z.opp sign) t)
  end.

Lemma telescope (n rho : nat -> Z) : forall m s a, rho (a + m)%coq_nat = Z0 ->
  alt_sumZ s (List.map (fun k => Z.sub (Z.sub (n k) (rho k)) (rho (S k))) (List.seq a m)) =
  Z.sub (alt_sumZ s (List.map n (List.seq a m))) (Z.mul s (rho a)).
Proof.
elim=> [|m IH] s a H /=.
- have -> : rho a = Z0 by rewrite -H; congr rho; lia.
  lia.
- rewrite IH; last by rewrite -H; congr rho; lia.
  lia.
Qed.

Lemma rk_bop0 r : rk (boundaryOperator r 0) = 0%N.
Proof. by apply: rk_zero => i j _ _; rewrite /boundaryOperator /=; exact: entry_zeros. Qed.

Lemma rk_bop_top r : (0 < r_nord r)%coq_nat -> rk (boundaryOperator r (r_nord r)) = 0%N.
Proof.
move=> H. have -> : boundaryOperator r (r_nord r) = emptymat.
  rewrite /boundaryOperator. have -> : (r_nord r =? 0)%nat = false by apply/PeanoNat.Nat.eqb_neq; lia.
  by have -> : (r_nord r <=? r_nord r)%nat = true by apply/PeanoNat.Nat.leb_le.
by apply: rk_zero => i j /=; lia.
Qed.

(* sum_k (-1)^k betti_k = sum_k (-1)^k (number of columns of d_k), for every representation *)
Theorem euler_poincare r :
  alt_sumZ (Zpos xH) (List.map (betti1 r) (List.seq 0 (r_nord r))) =
  alt_sumZ (Zpos xH) (List.map (fun k => Z.of_nat (ncols (boundaryOperator r k))) (List.seq 0 (r_nord r))).
Proof.
have E : List.map (betti1 r) (List.seq 0 (r_nord r)) =
         List.map (fun k => Z.sub (Z.sub (Z.of_nat (ncols (boundaryOperator r k))) (Z.of_nat (rk (boundaryOperator r k))))
                                  (Z.of_nat (rk (boundaryOperator r (S k))))) (List.seq 0 (r_nord r)).
  by apply: List.map_ext => k; exact: betti_formula.
rewrite E (@telescope (fun k => Z.of_nat (ncols (boundaryOperator r k))) (fun k => Z.of_nat (rk (boundaryOperator r k)))).
- by rewrite rk_bop0; lia.
- rewrite /=. case: (r_nord r) (@rk_bop_top r) => [|n] H; first by rewrite rk_bop0.
  by rewrite H //; lia.
Qed.

(* with one column per simplex the right-hand side is the Euler characteristic *)
Lemma alt_sum_Z s l : alt_sum s l = alt_sumZ s (List.map Z.of_nat l).
Proof. by elim: l s => [|x t IH] s //=; rewrite IH. Qed.

Theorem euler_characteristic_is_alt_betti r :
  (forall k, (k < r_nord r)%coq_nat -> ncols (boundaryOperator r k) = length (simplicesOfOrder r k)) ->
  eulerCharacteristic r = alt_sumZ (Zpos xH) (List.map (betti1 r) (List.seq 0 (r_nord r))).
Proof.
move=> H. rewrite euler_poincare /eulerCharacteristic /numberOfSimplicesOfOrder alt_sum_Z List.map_map.
congr alt_sumZ. apply: List.map_ext_in => k /List.in_seq Hk. by rewrite H //; lia.
Qed.
