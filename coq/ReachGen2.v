(* ReachGen2.v -- as ReachGen.v, but the deletion hypothesis is about the PUBLIC deleteSimplex (an
   invariant such as closedness survives deleteSimplex, not an arbitrary forceDeleteSimplex).
   Reach.v once more, for ANY invariant of the representation that (1) does not
   look at the name counter, the allocation counter or the attribute handles, (2) holds of the
   empty representation and (3) is kept by the three mutators addSimplex, relabelSimplex and
   deleteSimplex: every algorithm of base.py keeps it, because the algorithms only go
   through those three.  Instantiated with the shape invariant in Shapes.v.  Plain Coq.
   (Generated from Reach.v by replacing the invariant; the proofs never looked inside it.) *)
From Coq Require Import String ZArith Bool Arith List Lia.
From SV Require Import Names NamesFacts ListFacts Rep Fresh Complex Atomic RepInv Reach ReachGen.
Import ListNotations.
Open Scope nat_scope.

Section AnyInvariant2.
Variable I : rep -> Prop.
Hypothesis I_same_obs : forall r r', same_obs r r' -> I r -> I r'.
Hypothesis I_empty : forall uid, I (empty_rep uid).
Hypothesis addSimplex_I : forall r fs id attr r' x, I r -> addSimplex r fs id attr = (r', x) -> I r'.
Hypothesis relabelSimplex_I : forall r s q r' x, I r -> relabelSimplex r s q = (r', x) -> I r'.
Hypothesis deleteSimplex_I : forall r s r' x, I r -> deleteSimplex r s = (r', x) -> I r'.

Lemma newSimplex_I r d r' x : I r -> newSimplex r d = (r', x) -> I r'.
Proof.
  intros Hinv H. destruct (newSimplex_fresh r d) as (i & id & E & _). rewrite E in H. injection H as <- _.
  eapply I_same_obs; [apply same_obs_set_seq | exact Hinv].
Qed.

Lemma alloc_I r : I r -> I (fst (alloc r)).
Proof. intros H. eapply I_same_obs; [apply same_obs_alloc | exact H]. Qed.

(* a left fold of state-passing steps that each keep the invariant *)
Lemma fold_I {A B} (step : rep -> A -> rep * res B) (l : list A) :
  (forall r a r' x, I r -> step r a = (r', x) -> I r') ->
  forall r (x0 : res B) r' x, I r ->
  fold_left (fun acc a => match acc with (r1, Raise e) => (r1, Raise e) | (r1, Ok _) => step r1 a end) l (r, x0) = (r', x) ->
  I r'.
Proof.
  intros Hs. induction l as [|a t IH]; intros r x0 r' x Hr H; simpl in H.
  - now injection H as <- _.
  - destruct x0 as [b|e].
    + destruct (step r a) as [r1 x1] eqn:E. apply (IH r1 x1 r' x); auto. eapply Hs; eauto.
    + apply (IH r (Raise e) r' x); auto.
Qed.

Theorem deleteSimplexWithBasis_I r bs r' x : I r -> deleteSimplexWithBasis r bs = (r', x) -> I r'.
Proof.
  intros Hinv H. unfold deleteSimplexWithBasis in H.
  destruct (c_simplexWithBasis r bs false) as [[s|]|e]; try (now injection H as <- _).
  eapply deleteSimplex_I; eauto.
Qed.

Theorem deleteSimplices_I r ss r' x : I r -> deleteSimplices r ss = (r', x) -> I r'.
Proof.
  intros Hinv H. unfold deleteSimplices in H.
  eapply (fold_I (fun r1 s => if containsSimplex r1 s then deleteSimplex r1 s else (r1, Ok tt))); [|exact Hinv|exact H].
  intros r1 a0 r2 x2 Hr1 E. destruct (containsSimplex r1 a0).
  - eapply deleteSimplex_I; eauto.
  - now injection E as <- _.
Qed.

Theorem restrictBasisTo_I r bs r' x : I r -> restrictBasisTo r bs = (r', x) -> I r'.
Proof.
  intros Hinv H. unfold restrictBasisTo in H. destruct (c_isBasis r bs true); [|now injection H as <- _].
  destruct (retain_loop _ r _ _) as [retain|e]; [|now injection H as <- _].
  eapply (fold_I (fun r1 s => if containsSimplex r1 s && negb (memn s retain) then deleteSimplex r1 s else (r1, Ok tt)));
    [|exact Hinv|exact H].
  intros r1 a0 r2 x2 Hr1 E. destruct (containsSimplex r1 a0 && negb (memn a0 retain)).
  - eapply deleteSimplex_I; eauto.
  - now injection E as <- _.
Qed.

(* ---------- adding by basis ---------- *)
Lemma ensure_add_I bs attr : forall r r' x, I r ->
  ensure_add rep containsSimplex orderOf addSimplex r bs attr = (r', x) -> I r'.
Proof.
  induction bs as [|b t IH]; intros r r' x Hinv H; simpl in H.
  - now injection H as <- _.
  - destruct (containsSimplex r b).
    + destruct (orderOf r b) as [[|k]|e]; try (now injection H as <- _). eapply IH; eauto.
    + destruct (addSimplex r [] (Some b) attr) as [r1 [n|e]] eqn:E.
      * eapply IH; [|exact H]. eapply addSimplex_I; eauto.
      * injection H as <- _. eapply addSimplex_I; eauto.
Qed.

Theorem ensureBasis_I r bs attr r' x : I r -> c_ensureBasis r bs attr = (r', x) -> I r'.
Proof.
  intros Hinv H. unfold c_ensureBasis, ensureBasis in H.
  destruct (ensure_check rep containsSimplex orderOf r bs); [|now injection H as <- _].
  eapply ensure_add_I; eauto.
Qed.


Lemma awb_I fuel : forall r id attr k bs r' x, I r -> c_awb fuel r id attr k bs = (r', x) -> I r'.
Proof.
  unfold c_awb.
  induction fuel as [|f IH]; intros r id attr k bs r' x Hinv H; simpl in H.
  - now injection H as <- _.
  - destruct (simplexWithBasis rep (fun r0 => r0) containsSimplex orderOf r bs false) as [[s|]|e];
      try (now injection H as <- _).
    (* the recursive calls over the facets *)
    set (F := fun (acc : rep * res (list name)) (pfs : list name) =>
                match acc with
                | (st', Raise e) => (st', Raise e)
                | (st', Ok fs) =>
                    match awb rep (fun r0 => r0) (fun _ r'0 => r'0) containsSimplex orderOf addSimplex f st' id attr k pfs with
                    | (st'', Ok s) => (st'', Ok (fs ++ [s]))
                    | (st'', Raise e) => (st'', Raise e)
                    end
                end) in H.
    assert (HF : forall l acc, I (fst acc) -> I (fst (fold_left F l acc))).
    { induction l as [|pfs l IHl]; intros acc Hacc; simpl; auto. apply IHl.
      destruct acc as [st' [fs|e]]; simpl in *; auto.
      destruct (awb rep _ _ _ _ _ f st' id attr k pfs) as [st'' [s|e]] eqn:E; simpl;
        eapply (IH st' id attr k pfs); eauto. }
    destruct (fold_left F (drop_one bs) (r, Ok [])) as [st1 rfs] eqn:EF.
    assert (Hst1 : I st1) by (specialize (HF (drop_one bs) (r, Ok []) Hinv); now rewrite EF in HF).
    destruct rfs as [fs|e]; [|now injection H as <- _].
    destruct (k =? length bs - 1).
    + eapply addSimplex_I; eauto.
    + destruct (newSimplex st1 (length bs - 1)) as [r1 [n1|e1]] eqn:E1.
      * assert (Hr1 : I r1) by (eapply newSimplex_I; eauto).
        destruct (name_eqb n1 id).
        -- destruct (newSimplex r1 (length bs - 1)) as [r2 [n2|e2]] eqn:E2.
           ++ eapply addSimplex_I; [|exact H]. eapply newSimplex_I; eauto.
           ++ injection H as <- _. eapply newSimplex_I; eauto.
        -- eapply addSimplex_I; eauto.
      * injection H as <- _. eapply newSimplex_I; eauto.
Qed.

Theorem addSimplexWithBasis_I r bs id attr r' x : I r -> c_addSimplexWithBasis r bs id attr = (r', x) -> I r'.
Proof.
  intros Hinv H. unfold c_addSimplexWithBasis, addSimplexWithBasis in H.
  destruct bs as [|b0 bs0]; [now injection H as <- _|].
  set (bs := b0 :: bs0) in *.
  destruct (match id with
            | Some n => containsSimplex r n || ((0 <? length bs - 1) && memn n bs)
            | None => false
            end); [now injection H as <- _|].
  assert (Hst : I (fst (match attr with Some h => (r, h) | None => let '(r'0, h) := alloc r in (r'0, h) end))).
  { destruct attr as [h0|]; [exact Hinv|]. unfold alloc. simpl.
    apply (I_same_obs r); [repeat split | exact Hinv]. }
  destruct (match attr with Some h => (r, h) | None => let '(r'0, h) := alloc r in (r'0, h) end) as [st h]. simpl in Hst.
  destruct (simplexWithBasis rep (fun r0 => r0) containsSimplex orderOf st bs false) as [[s|]|e];
    try (now injection H as <- _).
  destruct (length bs - 1 =? 0).
  - eapply addSimplex_I; eauto.
  - destruct (ensureBasis rep containsSimplex orderOf addSimplex st bs (Some h)) as [st1 [[]|e]] eqn:E1.
    + assert (Hst1 : I st1) by (eapply ensureBasis_I; eauto).
      destruct id as [n|].
      * eapply awb_I; eauto.
      * destruct (newSimplex st1 (length bs - 1)) as [r2 [n|e]] eqn:E2.
        -- eapply awb_I; [|exact H]. eapply newSimplex_I; eauto.
        -- injection H as <- _. eapply newSimplex_I; eauto.
    + injection H as <- _. eapply ensureBasis_I; eauto.
Qed.

Theorem barycentricSubdivide_I r s pts r' x : I r -> barycentricSubdivide r s pts = (r', x) -> I r'.
Proof.
  intros Hinv H. unfold barycentricSubdivide in H.
  destruct (negb (containsSimplex r s)); [now injection H as <- _|].
  destruct (orderOf r s) as [[|k]|e]; try (now injection H as <- _).
  destruct (addSimplex r [] None None) as [r1 [mid|e]] eqn:E1.
  2: { injection H as <- _. eapply addSimplex_I; eauto. }
  assert (Hr1 : I r1) by (eapply addSimplex_I; eauto).
  destruct (deleteSimplex r1 s) as [r2 [[]|e]] eqn:E2.
  2: { injection H as <- _. eapply deleteSimplex_I; eauto. }
  assert (Hr2 : I r2) by (eapply deleteSimplex_I; eauto).
  set (P := if seteq pts (basisOf r1 s) && nodupb pts then pts else basisOf r1 s) in H.
  destruct (fold_left _ (seq 0 (length P)) (r2, Ok tt)) as [r3 x3] eqn:E3.
  injection H as <- _.
  eapply (fold_I (fun r0 idx => match c_addSimplexWithBasis r0 (remove_nth idx P ++ [mid]) None None with
                                   | (r'', Raise e) => (r'', Raise e)
                                   | (r'', Ok _) => (r'', Ok tt)
                                   end)); [|exact Hr2|exact E3].
  intros r0 a0 r4 x4 Hr0 E. destruct (c_addSimplexWithBasis r0 (remove_nth a0 P ++ [mid]) None None) as [r5 [n|e]] eqn:E5;
    injection E as <- _; eapply addSimplexWithBasis_I; eauto.
Qed.

(* ---------- relabelling and bulk adds ---------- *)
Lemma relabel_do_I rn : forall ss r st mapping r' st' x, I r ->
  relabel_do r rn st ss mapping = (r', st', x) -> I r'.
Proof.
  induction ss as [|s t IH]; intros r st mapping r' st' x Hinv H; simpl in H.
  - now injection H as <- _ _.
  - destruct (rl_apply rn st s) as [st1 s'].
    destruct (name_eqb s s'); [eapply IH; eauto|].
    destruct (relabelSimplex r s s') as [r1 [[]|e]] eqn:E.
    + eapply IH; [|exact H]. eapply relabelSimplex_I; eauto.
    + injection H as <- _ _. eapply relabelSimplex_I; eauto.
Qed.

Theorem relabel_I r rn r' st x : I r -> relabel r rn = (r', st, x) -> I r'.
Proof.
  intros Hinv H. unfold relabel in H.
  destruct (relabel_check rn rl0 (simplices r false) (simplices r false)) as [st0 [[]|e]].
  - eapply relabel_do_I; eauto.
  - now injection H as <- _ _.
Qed.

Lemma addFrom_loop_I rn : forall src hp r st ns hp' r' st' x, I r ->
  addFrom_loop hp r rn st src ns = (hp', r', st', x) -> I r'.
Proof.
  induction src as [|[s [fs h]] rest IH]; intros hp r st ns hp' r' st' x Hinv H; cbn [addFrom_loop] in H.
  - now injection H as _ <- _ _.
  - destruct (rl_apply rn st s) as [st1 t].
    destruct (negb (name_eqb s t) && containsSimplex r t); [now injection H as _ <- _ _|].
    destruct (rl_map rn st1 fs) as [st2 fs'].
    destruct (alloc r) as [r1 h'] eqn:Ea.
    assert (Hr1 : I r1) by (pose proof (alloc_I r Hinv) as Hp; now rewrite Ea in Hp).
    destruct (addSimplex r1 fs' (Some t) (Some h')) as [r2 [id|e]] eqn:E.
    + eapply IH; [|exact H]. eapply addSimplex_I; eauto.
    + injection H as _ <- _ _. eapply addSimplex_I; eauto.
Qed.

Theorem addSimplicesFrom_I hp r src rn hp' r' st x : I r ->
  addSimplicesFrom hp r src rn = (hp', r', st, x) -> I r'.
Proof. intros Hinv H. unfold addSimplicesFrom in H. eapply addFrom_loop_I; eauto. Qed.

Theorem copy_new_I hp src uid hp' r' x : copy_new hp src uid = (hp', r', x) -> I r'.
Proof.
  unfold copy_new. destruct (addSimplicesFrom hp (empty_rep uid) src RNone) as [[[hp1 r1] st] x1] eqn:E.
  intros H. injection H as _ <- _. eapply addSimplicesFrom_I; [apply I_empty | exact E].
Qed.

Theorem copy_into_I hp src target hp' r' x : I target -> copy_into hp src target = (hp', r', x) -> I r'.
Proof.
  intros Hinv. unfold copy_into. destruct (negb _); [intros H; now injection H as _ <- _|].
  destruct (addSimplicesFrom hp target src RNone) as [[[hp1 r1] st] x1] eqn:E.
  intros H. injection H as _ <- _. eapply addSimplicesFrom_I; eauto.
Qed.

End AnyInvariant2.
