(* LookupFaces.v -- C04: simplexWithFaces(fs), for a duplicate-free list of two or more simplices of one order of a
   complex that meets the vertex-set reading, answers the one simplex whose faces are exactly fs, None exactly when
   there is none, and never raises.  Plain Coq. *)
From Coq Require Import String ZArith Bool Arith List Lia.
From SV Require Import Names NamesFacts ListFacts Rep Fresh Complex Atomic RepInv Reach Shapes Incidence AddEffect
                       Closed ClosedReach AddBasis BasisInv VInv AwbSpec VSets FlagSound FlagComplete CopyOk.
Import ListNotations.
Open Scope nat_scope.

Theorem lookup_by_faces_exact r fs : vinv r -> NoDup fs -> 2 <= length fs ->
  (forall f, In f fs -> exists j, assoc f (r_simp r) = Some (length fs - 1 - 1, j)) ->
  match simplexWithFaces r fs with
  | Ok (Some s) => containsSimplex r s = true /\ sameset (faces r s) fs /\
                   forall t, containsSimplex r t = true -> sameset (faces r t) fs -> t = s
  | Ok None => forall t, containsSimplex r t = true -> ~ sameset (faces r t) fs
  | Raise _ => False
  end.
Proof.
  intros Hv Hnd Hl Hf.
  pose proof (b_c r (v_b r Hv)) as C. pose proof (s_p r (c_s r C)) as P.
  (* a simplex whose faces are fs is listed at order |fs| - 1 *)
  assert (Hord : forall t, containsSimplex r t = true -> sameset (faces r t) fs ->
                 exists j, assoc t (r_simp r) = Some (length fs - 1, j)).
  { intros t Ct St. apply (contains_assoc r) in Ct. destruct Ct as (k & j & At). exists j.
    assert (Lt : length (faces r t) = length fs).
    { apply NoDup_same_length; [now apply faces_nodup|exact Hnd|exact St]. }
    destruct k as [|k].
    - unfold faces in Lt. rewrite At in Lt. simpl in Lt. lia.
    - rewrite (c_f r C t k j At) in Lt. rewrite At. f_equal. f_equal. lia. }
  rewrite (swf_total r fs Hl Hf).
  destruct (last (map Some (filter (fun s => seteq (faces r s) fs) (simplicesOfOrder r (length fs - 1)))) None) as [s|] eqn:E.
  - apply last_Some_In in E. apply filter_In in E. destruct E as [Hs Hq]. apply seteq_sameset in Hq.
    destruct (listed_assoc r Hv s (length fs - 1) Hs) as (j & As).
    assert (Cs : containsSimplex r s = true) by (unfold containsSimplex; now rewrite As).
    split; [exact Cs|]. split; [exact Hq|]. intros t Ct St. destruct (Hord t Ct St) as (jt & At).
    destruct (length fs - 1) as [|o] eqn:Eo; [lia|].
    apply (same_faces_same_simplex r Hv s t o j jt As At). intros z. rewrite (St z). symmetry. apply Hq.
  - intros t Ct St. destruct (Hord t Ct St) as (jt & At).
    pose proof (order_listed r t _ jt P At) as Hin.
    assert (Hfil : In t (filter (fun s => seteq (faces r s) fs) (simplicesOfOrder r (length fs - 1)))).
    { apply filter_In. split; [exact Hin|]. now apply seteq_sameset. }
    destruct (filter _ _) as [|x l] eqn:Ef; [destruct Hfil|].
    clear -E. assert (X : forall (l0 : list name) (y : name), last (map Some (y :: l0)) None <> None).
    { induction l0 as [|z l0 IH]; intros y; simpl; [discriminate|]. apply (IH z). }
    now apply (X l x).
Qed.
