(* FiltCopyFrame.v -- Filtration.copy(): whatever its outcome, the complex underneath the result owns
   every one of its dictionaries under the new uid, and no dictionary of anybody else is written. *)
From Coq Require Import String ZArith Bool Arith List Lia.
From SV Require Import Names NamesFacts ListFacts Rep Fresh Complex Atomic RepInv Reach Homology Filtration Gen World WorldProofs CopyAttrs DeepcopyFrame.
Import ListNotations.

Definition fo (uid : nat) (c : filt) : Prop := owned (f_rep c) /\ r_uid (f_rep c) = uid.

Lemma f_rep_setIndex' f i : f_rep (f_setIndex f i) = f_rep f.
Proof. unfold f_setIndex. destruct (f_isIndex f i); reflexivity. Qed.

Lemma fo_new uid i : fo uid (new_filt uid i).
Proof. split; [apply owned_empty|reflexivity]. Qed.
Lemma fo_setIndex uid c i : fo uid c -> fo uid (f_setIndex c i).
Proof. unfold fo. now rewrite f_rep_setIndex'. Qed.

Lemma fo_add uid c fs id h c' x : fo uid c -> fst h = uid -> f_addSimplex c fs id (Some h) = (c', x) -> fo uid c'.
Proof.
  intros [O U] Hh. unfold f_addSimplex.
  destruct (existsb _ fs); [intros [= <- _]; now split|].
  destruct (addSimplex (f_rep c) fs id (Some h)) as [r' y] eqn:E.
  assert (F : owned r' /\ r_uid r' = uid).
  { split; [eapply addSimplex_owned; [exact O| |exact E]; intros h0 [= <-]; congruence|].
    rewrite (addSimplex_uid _ _ _ _ _ _ E). exact U. }
  destruct y as [nid|e]; [|intros [= <- _]; exact F].
  destruct (zassoc (f_index c) (f_includes c)); [destruct (zassoc (f_index c) (f_maxOrders c))|];
    intros [= <- _]; exact F.
Qed.

Definition fstate (uid : nat) (hp0 : heap) (acc : heap * filt * res unit) : Prop :=
  fo uid (snd (fst acc)) /\ forall h, fst h <> uid -> heap_get (fst (fst acc)) h = heap_get hp0 h.

Theorem f_copy_fresh hp f uid orders hp' c x : f_copy hp f uid orders = (hp', c, x) ->
  owned (f_rep c) /\ r_uid (f_rep c) = uid /\ forall h, fst h <> uid -> heap_get hp' h = heap_get hp h.
Proof.
  unfold f_copy. destruct (f_indices f) as [|i0 inds] eqn:Ei.
  - intros [= <- <- _]. destruct (fo_new uid 0%Z) as [A B]. auto.
  - set (inner := fun (acc : heap * filt * res unit) (s : name) =>
                      match acc with
                      | (_, _, Raise _) => acc
                      | (hp2, c3, Ok _) =>
                          let hs := match assoc s (r_attr (f_rep f)) with Some h => h | None => (0, 0) end in
                          let '(r4, h') := alloc (f_rep c3) in
                          let hp3 := heap_set hp2 h' (heap_get hp2 hs) in
                          let c4 := with_rep c3 r4 in
                          match f_orderOf f s with
                          | Raise e => (hp3, c4, Raise e)
                          | Ok k =>
                              match f_addSimplex c4 (if k =? 0 then [] else faces (f_rep f) s) (Some s) (Some h') with
                              | (c5, Raise e) => (hp3, c5, Raise e)
                              | (c5, Ok _) => (hp3, c5, Ok tt)
                              end
                          end
                      end).
    assert (Hin : forall ss acc, fstate uid hp acc -> fstate uid hp (fold_left inner ss acc)).
    { induction ss as [|s ss IH]; intros acc Hb; simpl; [exact Hb|]. apply IH.
      destruct acc as [[hp2 c3] [u|e]]; [|exact Hb]. destruct Hb as [[O U] Hf]. cbn [fst snd] in O, U, Hf.
      unfold inner.
      destruct (alloc (f_rep c3)) as [r4 h'] eqn:Ea.
      pose proof (alloc_owned (f_rep c3) O) as X. rewrite Ea in X. cbn [fst snd] in X. destruct X as (O4 & Hh & U4).
      assert (B4 : fo uid (with_rep c3 r4)) by (split; cbn; [exact O4|congruence]).
      assert (Hh' : fst h' = uid) by congruence.
      assert (Hf3 : forall h, fst h <> uid -> heap_get (heap_set hp2 h' (heap_get hp2 (match assoc s (r_attr (f_rep f)) with Some h0 => h0 | None => (0, 0) end))) h = heap_get hp h).
      { intros h Hne. rewrite heap_get_set. destruct (handle_eqb h h') eqn:Eh; [|now apply Hf].
        apply handle_eqb_eq in Eh. subst h. congruence. }
      cbv zeta.
      destruct (f_orderOf f s) as [k|e]; [|split; [exact B4|exact Hf3]].
      destruct (f_addSimplex (with_rep c3 r4) (if k =? 0 then [] else faces (f_rep f) s) (Some s) (Some h')) as [c5 [n|e]] eqn:EA;
        (split; [eapply fo_add; [exact B4|exact Hh'|exact EA]|exact Hf3]). }
    destruct (fold_left _ (i0 :: inds) _) as [[hp1 c1] x1] eqn:EF.
    intros H. injection H as <- <- _.
    match type of EF with fold_left ?outer ?L ?init = _ =>
      assert (Hout : forall L0 acc, fstate uid hp acc -> fstate uid hp (fold_left outer L0 acc)) end.
    { induction L0 as [|ind L0 IH]; intros acc Hb; simpl; [exact Hb|]. apply IH.
      destruct acc as [[hp2 c2] [u|e]]; [|exact Hb]. destruct Hb as [Fo Hf].
      apply (Hin _ (hp2, f_setIndex c2 ind, Ok tt)). split; [now apply fo_setIndex|exact Hf]. }
    match type of EF with fold_left ?outer ?L ?init = _ =>
      pose proof (Hout L init) as X; rewrite EF in X end.
    destruct X as [Fo Hf]; [split; [apply fo_new|reflexivity]|]. cbn [fst snd] in Fo, Hf.
    destruct (fo_setIndex uid c1 i0 Fo) as [A B]. auto.
Qed.
