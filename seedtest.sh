#!/bin/bash
# usage: seedtest.sh <patch.diff> <Cnn> [<Cnn>...]  -- apply a seeded change to /repo, run the quick checks, undo it
patch="$1"; shift
cd /verif
git -C /repo apply "$patch" || { echo "PATCH DOES NOT APPLY"; exit 9; }
trap 'git -C /repo checkout -- .' EXIT
for p in "$@"; do
  ./check $p --tier ${TIER:-quick} 2>&1 | grep -E "^(VIOLATION|KNOWN|C[0-9]+ )" | head -8
done
