"""oracles3.py -- oracles for C08, C09, C11, C12, C15, C16, C17, C18, C19, C20."""
import itertools, random, json, math, os, tempfile, copy as _copy
import numpy
from harness import impl
from harness.impl import (tok, parse_name, SimplicialComplex, Filtration, Embedding, EulerIntegrator,
                          TriangularLattice, TriangularLatticeEmbedding)
from harness.oracles import oracle, family, classify, is_auto, full_obs, obs_diff, vs
from harness.oracles2 import own_betti, components, _record
from simplicial.file.json_simplicial import as_json, as_simplicial_complex, write_json, read_json

# ================================================================ C08
def _all_obs(w):
    out = {}
    for v, c in w.vars.items():
        if isinstance(c, SimplicialComplex):
            out[v] = full_obs(c)
    return out

@oracle('save-all')
def o_save_all(w, args):
    w.ostate['all'] = _all_obs(w)
    w.ostate['all-ids'] = {v: id(c) for v, c in w.vars.items()}
    return None

@oracle('unchanged-all')
def o_unchanged_all(w, args):
    """every complex / filtration that existed at the last save-all is observably unchanged"""
    now = _all_obs(w)
    api = w.last_line.split()[0] if w.last_line else '?'
    if api == 'q':
        api = w.last_line.split()[2]
    for v, o in w.ostate['all'].items():
        if v not in now or id(w.vars[v]) != w.ostate['all-ids'].get(v):
            continue          # the variable was re-bound by the call: not the same object
        d = obs_diff(o, now[v])
        if d is not None:
            return '[%s/modifies-input] `%s` changed %s: %s' % (api, w.last_line, v, d)
    return None

# ================================================================ C09
def content(c):
    rec = {}
    for s in c.simplices():
        rec[tok(s)] = (c.orderOf(s), frozenset(map(tok, c.faces(s))), json.dumps(c[s], sort_keys=True))
    return rec

@oracle('same-content')
def o_same_content(w, args):
    """<copy> has the names, orders, faces and attribute values of <source> (and birth indices)"""
    a = w.vars[args[0]]; b = w.vars[args[1]]
    api = args[2] if len(args) > 2 else 'copy'
    if isinstance(a, Filtration) and isinstance(b, Filtration):
        # compare at every index of the source
        a2 = _copy.deepcopy(a); b2 = _copy.deepcopy(b)
        if list(a2.indices()) != list(b2.indices()) and set(a2.indices()) - set(b2.indices()):
            pass
        for i in b2.indices():
            b2.setIndex(i); a2.setIndex(i)
            ca, cb = content(a2), content(b2)
            if ca != cb:
                return '[%s/content-differs] at index %s the copy has %s, the source %s' % (api, i, sorted(ca)[:8], sorted(cb)[:8])
            for s in b2.simplices():
                if a2.addedAtIndex(s) != b2.addedAtIndex(s):
                    return '[%s/birth-differs] %s born at %s in the copy, %s in the source' % (api, tok(s), a2.addedAtIndex(s), b2.addedAtIndex(s))
        return None
    ca, cb = content(a), content(b)
    if ca != cb:
        diff = sorted(set(ca) ^ set(cb))[:6] or [n for n in ca if ca[n] != cb[n]][:3]
        return '[%s/content-differs] copy and source differ on %s' % (api, diff)
    return None

@oracle('deepcopy-filt')
def o_deepcopy_filt(w, args):
    """copy.deepcopy of a filtration: same current index, same content and births at every index, nothing shared"""
    f = w.vars[args[0]]
    d = _copy.deepcopy(f)
    if d.getIndex() != f.getIndex():
        return '[deepcopy/index] the deep copy of a filtration at index %r stands at index %r' % (f.getIndex(), d.getIndex())
    if [tok(s) for s in d.simplices()] != [tok(s) for s in f.simplices()]:
        return '[deepcopy/content-differs] the deep copy lists %s, the source %s' % ([tok(s) for s in d.simplices()][:8], [tok(s) for s in f.simplices()][:8])
    if list(d.indices()) != list(f.indices()):
        return '[deepcopy/indices] indices() %s in the copy, %s in the source' % (list(d.indices()), list(f.indices()))
    i0 = f.getIndex()
    try:
        for i in list(f.indices()):
            f.setIndex(i); d.setIndex(i)
            if content(d) != content(f):
                return '[deepcopy/content-differs] at index %r the deep copy and the source differ' % (i,)
            for s in f.simplices():
                if d.addedAtIndex(s) != f.addedAtIndex(s):
                    return '[deepcopy/birth-differs] %s' % tok(s)
                if d[s] is f[s]:
                    return '[deepcopy/shares-attributes] the attribute dictionary of %s is shared with the source' % tok(s)
                for k, v in f[s].items():
                    if isinstance(v, (list, dict)) and d[s].get(k) is v:
                        return '[deepcopy/shares-attribute-value] the value of %s[%r] is the same object in the copy' % (tok(s), k)
    finally:
        f.setIndex(i0)
    return None

@oracle('fresh')
def o_fresh(w, args):
    """<new> shares no attribute dictionary and no representation object with any other variable"""
    n = args[0]; c = w.vars[n]; api = args[1] if len(args) > 1 else 'copy'
    ids = {id(c[s]): s for s in SimplicialComplex.simplices(c)}
    for v, o in w.vars.items():
        if v == n or not isinstance(o, SimplicialComplex):
            continue
        if o.representation() is c.representation() or o is c:
            return '[%s/shares-representation] %s and %s are backed by the same object' % (api, n, v)
        for s in SimplicialComplex.simplices(o):
            if id(o[s]) in ids:
                return '[%s/shares-attributes] %s[%s] and %s[%s] are the same dictionary object' % (api, n, tok(ids[id(o[s])]), v, tok(s))
        for k in range(min(c.maxOrder(), o.maxOrder()) + 2):
            A = c.boundaryOperator(k); B = o.boundaryOperator(k)
            if A.size and B.size and numpy.shares_memory(A, B):
                return '[%s/shares-matrix] boundaryOperator(%d) of %s and %s share memory' % (api, k, n, v)
    for k, d in enumerate(w.dicts):
        if id(d) in ids and api not in ('add',):
            return '[%s/shares-attributes] %s[%s] is the dictionary #%d the caller still holds' % (api, n, tok(ids[id(d)]), k)
    return None

# ================================================================ C11
def fam_sets(c):
    return {vs(c, s) for s in c.simplices()}

def clique_family(c):
    pts = [tok(p) for p in (c.simplicesOfOrder(0) if c.maxOrder() >= 0 else [])]
    edges = {vs(c, e) for e in (c.simplicesOfOrder(1) if c.maxOrder() >= 1 else [])}
    fam = {frozenset([p]) for p in pts} | edges
    adj = {p: set() for p in pts}
    for e in edges:
        a, b = tuple(e); adj[a].add(b); adj[b].add(a)
    # extend cliques
    level = set(edges)
    while level:
        nxt = set()
        for K in level:
            common = set.intersection(*(adj[p] for p in K))
            for q in common:
                nxt.add(K | {q})
        fam |= nxt; level = nxt
    return fam

@oracle('c11')
def o_c11(w, args):
    """<flag> = <k>.flagComplex(): exactly the clique complex of k's 1-skeleton, containing k"""
    f = w.vars[args[0]]; k = w.vars[args[1]]
    want = clique_family(k); got = fam_sets(f)
    if got != want:
        return '[flagComplex/not-clique-complex] missing %s ; extra %s' % (
            sorted(map(sorted, want - got))[:4], sorted(map(sorted, got - want))[:4])
    if len(f.simplices()) != len(got):
        return '[flagComplex/duplicate-simplex] two simplices of the flag complex share a vertex set'
    ck, cf = content(k), content(f)
    for n, r in ck.items():
        if n not in cf or cf[n] != r:
            return '[flagComplex/loses-source] simplex %s of the source is %s in the flag complex' % (n, cf.get(n))
    return None

@oracle('samefam')
def o_samefam(w, args):
    a = w.vars[args[0]]; b = w.vars[args[1]]; what = args[2] if len(args) > 2 else 'family'
    A, B = fam_sets(a), fam_sets(b)
    if A != B:
        return '[%s/families-differ] only in %s: %s ; only in %s: %s' % (
            what, args[0], sorted(map(sorted, A - B))[:4], args[1], sorted(map(sorted, B - A))[:4])
    return None

@oracle('subfam')
def o_subfam(w, args):
    a = w.vars[args[0]]; b = w.vars[args[1]]; what = args[2] if len(args) > 2 else 'family'
    A, B = fam_sets(a), fam_sets(b)
    if not A <= B:
        return '[%s/not-monotone] in %s but not in %s: %s' % (what, args[0], args[1], sorted(map(sorted, A - B))[:4])
    return None

# ================================================================ C12
def own_distance(metric, p, q):
    p = [float(x) for x in p]; q = [float(x) for x in q]       # (coordinates may arrive as numpy scalars)
    if metric == 'manhattan':
        return sum(abs(b - a) for a, b in zip(p, q))
    if metric == 'chebyshev':
        return max([abs(b - a) for a, b in zip(p, q)], default=0.0)
    if metric == 'wrap':
        t = 0.0
        for a, b in zip(p, q):
            g = abs(b - a) % 4.0
            g = min(g, 4.0 - g)
            t = t + g * g
        return math.sqrt(t)
    if metric == 'half':
        return 0.5 * own_distance(None, p, q)
    s = 0.0
    for a, b in zip(p, q):
        s = s + (b - a) * (b - a)
    return math.sqrt(s)

def own_distance_pow(metric, p, q):
    """the Euclidean-based metrics with the squares taken by the platform's pow (libm: not specified to round
    x^2 correctly) instead of x*x"""
    p = [float(x) for x in p]; q = [float(x) for x in q]
    if metric == 'half':
        return 0.5 * own_distance_pow(None, p, q)
    if metric is None:
        s = 0.0
        for a, b in zip(p, q):
            s = s + math.pow(b - a, 2)
        return math.sqrt(s)
    return own_distance(metric, p, q)

def closeness(metric, p, q, eps):
    """True / False, or None when the answer depends on how the platform rounds a square (the pair may then be
    an edge or not: binary64 distance is what the property is about, not one libm)"""
    a = own_distance(metric, p, q) <= eps; b = own_distance_pow(metric, p, q) <= eps
    return a if a == b else None

@oracle('c12')
def o_c12(w, args):
    """<vr> = <e>.vietorisRipsComplex(eps): the points of e's complex and a simplex exactly on the
    sets whose pairwise distances (listing-ordered pairs) are all <= eps"""
    vr = w.vars[args[0]]; e = w.vars[args[1]]; eps = float.fromhex(args[2])
    c = w.vars.get(w.embcx.get(args[1]))          # the complex the script created the embedding on
    if c is None:
        c = e.complex()
    elif e.complex() is not c:
        return '[embedding/detached] the embedding does not hold the complex it was created on (it holds one with %d simplices, that one has %d)' % (len(e.complex().simplices()), len(c.simplices()))
    pts = list(c.simplicesOfOrder(0)) if c.maxOrder() >= 0 else []
    metric = getattr(e, '_metric', None)
    pos = {tok(p): e.positionOf(p) for p in pts}
    close = set()
    got = fam_sets(vr)
    for i in range(len(pts)):
        for j in range(i + 1, len(pts)):
            cl = closeness(metric, pos[tok(pts[i])], pos[tok(pts[j])], eps)
            E_ = frozenset([tok(pts[i]), tok(pts[j])])
            if cl is None:
                cl = E_ in got          # a tie decided by the rounding of a square: either way
            if cl:
                close.add(E_)
    want = {frozenset([tok(p)]) for p in pts}
    level = set(close); want |= close
    adj = {tok(p): set() for p in pts}
    for E in close:
        a, b = tuple(E); adj[a].add(b); adj[b].add(a)
    while level:
        nxt = set()
        for K in level:
            for q in set.intersection(*(adj[p] for p in K)):
                nxt.add(K | {q})
        want |= nxt; level = nxt
    if got != want:
        return '[vietorisRips/wrong-family] eps=%r: missing %s ; extra %s' % (
            eps, sorted(map(sorted, want - got))[:4], sorted(map(sorted, got - want))[:4])
    if [tok(p) for p in vr.simplicesOfOrder(0)] != [tok(p) for p in pts] and set(tok(p) for p in vr.simplicesOfOrder(0)) != set(map(tok, pts)):
        return '[vietorisRips/points] the points of the result are not the embedding\'s points'
    if len(vr.simplices()) != len(got):
        return '[vietorisRips/duplicate-simplex] two simplices share a vertex set'
    return None

@oracle('c12-lattice')
def o_c12_lattice(w, args):
    """<rows> <cols> <h> <w> <eps>: the Vietoris-Rips complex of a lattice embedding whose positions have not been
    read yet (they are computed on demand by the subclass): same family as from the positions themselves"""
    r = int(args[0]); cols = int(args[1]); h = float.fromhex(args[2]); wd = float.fromhex(args[3]); eps = float.fromhex(args[4])
    c = TriangularLattice(r, cols); e = TriangularLatticeEmbedding(c, h, wd)
    try:
        vr = e.vietorisRipsComplex(eps)          # nothing has asked for a position before this call
    except Exception as ex:
        return '[vietorisRips/lattice-raises] %s: %s' % (type(ex).__name__, ex)
    pts = list(c.simplicesOfOrder(0))
    pos = {}
    for p in pts:
        i, j = divmod(p, cols)
        pos[p] = [(wd / (2 * cols)) * (2 * j + (i % 2)), h - (h / r) * i]
    got = fam_sets(vr)
    close = set()
    for a, b in itertools.combinations(pts, 2):
        cl = closeness(None, pos[a], pos[b], eps); E_ = frozenset([tok(a), tok(b)])
        if cl is None:
            cl = E_ in got              # a tie decided by the rounding of a square: either way
        if cl:
            close.add(E_)
    want = {frozenset([tok(p)]) for p in pts} | close
    adj = {tok(p): set() for p in pts}
    for E in close:
        a, b = tuple(E); adj[a].add(b); adj[b].add(a)
    level = set(close)
    while level:
        nxt = set()
        for K in level:
            for q in set.intersection(*(adj[p] for p in K)):
                nxt.add(K | {q})
        want |= nxt; level = nxt
    got = fam_sets(vr)
    if got != want:
        return '[vietorisRips/lattice-wrong-family] %dx%d lattice in a %rx%r box, eps=%r: missing %s ; extra %s' % (
            r, cols, h, wd, eps, sorted(map(sorted, want - got))[:4], sorted(map(sorted, got - want))[:4])
    return None

# ================================================================ C15
@oracle('c15-pre')
def o_c15_pre(w, args):
    v = args[0]; c = w.vars[v]; line = ' '.join(args[1:])
    rec = {}
    for s in c.simplices():
        rec[tok(s)] = (c.orderOf(s), c.indexOf(s), frozenset(map(tok, c.faces(s))), frozenset(map(tok, c.cofaces(s))),
                       vs(c, s), json.dumps(c[s], sort_keys=True), id(c[s]))
    st = {'line': line, 'rec': rec, 'names': {tok(s): s for s in c.simplices()}, 'betti': dict(c.bettiNumbers()),
          'cls': classify(c, line, w)}
    # the by-basis and by-faces lookups are part of what a renaming carries along; use them before too
    for s in c.simplices():
        c.simplexWithBasis(list(c.basisOf(s)))
        if c.orderOf(s) > 0:
            c.simplexWithFaces(list(c.faces(s)))
    if args[1] == 'relabeldisj':
        o = w.vars[args[3]]
        st['other'] = set(map(tok, o.simplices()))
    w.ostate['c15'] = st
    return None

@oracle('c15-post')
def o_c15_post(w, args):
    v = args[0]; c = w.vars[v]; st = w.ostate['c15']; line = st['line']; kw = line.split()[0]
    out = w.last_out
    toks = line.split()
    before = st['rec']
    if kw == 'relabel':
        kind = toks[2]
        if out.startswith('err'):
            if st['cls'] == 'chain':
                return '[relabel/forward-chain] `%s` renames onto names that are themselves renamed away; rejected with %s' % (line, out)
            if st['cls'] == 'valid':
                return '[relabel/valid-rejected] `%s` is injective onto fresh names but gave %s' % (line, out)
            return None
        # parse "ok { a=>b ... } calls [ ... ]"
        body = out[3:]
        mp = body[body.index('{') + 1:body.index('}')].split()
        m = {}
        for p in mp:
            a, b = p.split('=>'); m[a] = b
        calls = body[body.index('calls [') + 7:body.rindex(']')].split()
        if len(set(calls)) != len(calls):
            return '[relabel/called-twice] the renaming function was called more than once for a simplex: %s' % calls
        if kind == 'map':
            l = impl.Toks(toks[3:]).names(); want = {}
            for i in range(0, len(l), 2):
                if tok(l[i]) in before and tok(l[i]) != tok(l[i + 1]):
                    want[tok(l[i])] = tok(l[i + 1])
            if m != want:
                return '[relabel/mapping] returned mapping %s, the simplices whose name changes are %s' % (m, want)
        elif kind == 'tup':
            want = {n: tok((st['names'][n], int(toks[3]))) for n in before}
            if m != want:
                return '[relabel/mapping] returned mapping %s, expected %s' % (m, want)
        elif kind == 'prefix':
            p = impl.unesc(toks[3][1:])
            want = {n: tok(p + str(st['names'][n])) for n in before}
            if m != want:
                return '[relabel/mapping] returned mapping %s, expected %s' % (m, want)
        elif kind == 'count':
            if not set(m) <= set(before) or len(set(m.values())) != len(m):
                return '[relabel/mapping] a counting renaming gives every simplex its own number: %s' % m
        f = lambda n: m.get(n, n)
        return _carried(c, before, f, 'relabel', st)
    if kw == 'relabel1':
        if out.startswith('err'):
            return None if st['cls'] != 'valid' else '[relabelSimplex/valid-rejected] `%s` gave %s' % (line, out)
        s = tok(parse_name(toks[2])); q = tok(parse_name(toks[3]))
        return _carried(c, before, lambda n: q if n == s else n, 'relabelSimplex', st)
    if kw == 'relabeldisj':
        if out.startswith('err'):
            return '[relabelDisjointFrom/raises] `%s` gave %s' % (line, out)
        body = out[3:]
        m = {}
        for p in body[body.index('{') + 1:body.index('}')].split():
            a, b = p.split('=>'); m[a] = b
        shared = set(before) & st['other']
        if set(m) != shared:
            return '[relabelDisjointFrom/not-minimal] renamed %s, the names shared with the other complex were %s' % (sorted(m), sorted(shared))
        now = {tok(s) for s in c.simplices()}
        if now & st['other']:
            return '[relabelDisjointFrom/still-shared] names still shared afterwards: %s' % sorted(now & st['other'])
        return _carried(c, before, lambda n: m.get(n, n), 'relabelDisjointFrom', st)
    return None

def _carried(c, before, f, api, st):
    now = {}
    for s in c.simplices():
        now[tok(s)] = (c.orderOf(s), c.indexOf(s), frozenset(map(tok, c.faces(s))), frozenset(map(tok, c.cofaces(s))),
                       vs(c, s), json.dumps(c[s], sort_keys=True), id(c[s]))
    want = {}
    for n, (k, i, fs, cf, bs, a, ida) in before.items():
        want[f(n)] = (k, i, frozenset(map(f, fs)), frozenset(map(f, cf)), frozenset(map(f, bs)), a, ida)
    if set(now) != set(want):
        return '[%s/names] names afterwards %s, expected %s' % (api, sorted(set(now) - set(want))[:5], sorted(set(want) - set(now))[:5])
    for n in want:
        if now[n] != want[n]:
            fields = ['order', 'listing position', 'faces', 'cofaces', 'basis', 'attributes', 'attribute dictionary object']
            i = next(j for j in range(7) if now[n][j] != want[n][j])
            return '[%s/not-carried] %s of %s: %r, expected %r' % (api, fields[i], n, now[n][i], want[n][i])
    if dict(c.bettiNumbers()) != st['betti']:
        return '[%s/betti-changed] Betti numbers %s -> %s' % (api, st['betti'], dict(c.bettiNumbers()))
    for s in c.simplices():
        t = c.simplexWithBasis(list(c.basisOf(s)))
        if t is None or tok(t) != tok(s):
            return '[%s/lookup-not-carried] simplexWithBasis(basis of %s) returns %s afterwards' % (api, tok(s), 'None' if t is None else tok(t))
        if c.orderOf(s) > 0:
            t = c.simplexWithFaces(list(c.faces(s)))
            if t is None or tok(t) != tok(s):
                return '[%s/lookup-not-carried] simplexWithFaces(faces of %s) returns %s afterwards' % (api, tok(s), 'None' if t is None else tok(t))
    return None

# ================================================================ C16
@oracle('c16-pre')
def o_c16_pre(w, args):
    a = w.vars[args[0]]; b = w.vars[args[1]]
    d = w.vars.get(args[2]) if len(args) > 2 else None
    w.ostate['c16'] = {'a': _record(a), 'b': _record(b), 'd': _record(d) if d is not None else None,
                       'obs_a': full_obs(a), 'obs_b': full_obs(b)}
    return None

@oracle('c16-post')
def o_c16_post(w, args):
    """after `compose r a b` / `composeinto a b d`: args = a b result"""
    st = w.ostate['c16']; A, B, D = st['a'], st['b'], st['d']
    out = w.last_out
    shared = set(A) & set(B)
    setsA = {r[2]: n for n, r in A.items()}; setsB = {r[2]: n for n, r in B.items()}
    compatible = all(A[n][2] == B[n][2] for n in shared) and all(setsA[V] == setsB[V] for V in set(setsA) & set(setsB))
    line = w.last_line
    for v, key in ((args[0], 'obs_a'), (args[1], 'obs_b')):
        dd = obs_diff(st[key], full_obs(w.vars[v]))
        if dd is not None:
            return '[compose/modifies-operand] `%s` changed %s: %s' % (line, v, dd)
    if not compatible:
        if out != 'err ValueError':
            return '[compose/incompatible-accepted] the operands are not compatible (a shared name with different bases, or a shared basis under different names) but `%s` gave %s' % (line, out)
        return None
    if D is not None and (set(D) & (set(A) | set(B))):
        return None       # target with related names: outside the statement
    if out.startswith('err'):
        return '[compose/compatible-rejected] compatible operands but `%s` gave %s' % (line, out)
    R = _record(w.vars[args[2]])
    want = {}
    for n, r in A.items():
        want[n] = r
    for n, r in B.items():
        if n in A:
            merged = json.loads(A[n][3]); merged.update(json.loads(r[3]))
            want[n] = (A[n][0], A[n][1], A[n][2], json.dumps(merged, sort_keys=True))
        else:
            want[n] = r
    if D is not None:
        for n, r in D.items():
            want[n] = r
    if set(R) != set(want):
        return '[compose/wrong-simplices] extra %s ; missing %s' % (sorted(set(R) - set(want))[:5], sorted(set(want) - set(R))[:5])
    for n in want:
        if R[n] != want[n]:
            return '[compose/wrong-simplex] %s is %r, expected %r' % (n, R[n], want[n])
    return None

# ================================================================ C17
@oracle('c17')
def o_c17(w, args):
    c = w.vars[args[0]]; rnd = random.Random(int(args[1]) if len(args) > 1 else 0)
    if any(type(s) not in (int, str) for s in SimplicialComplex.simplices(c)):
        return None          # outside the statement: names that are not strings or integers
    src = c.snap() if isinstance(c, Filtration) else c
    want = {tok(s): (src.orderOf(s), frozenset(map(tok, src.faces(s))), json.dumps(src[s], sort_keys=True)) for s in src.simplices()}
    try:
        text = as_json(c)
    except Exception as e:
        return '[as_json/raises] encoding raised %s: %s' % (type(e).__name__, e)
    try:
        plain = json.loads(text)
    except Exception as e:
        return '[as_json/not-json] the text is not valid JSON: %s' % e
    if not (isinstance(plain, dict) and plain.get('__simplicialcomplex__') is True and '__version__' in plain
            and isinstance(plain.get('simplices'), list)):
        return '[as_json/fields] marker, version or simplices field missing: %s' % sorted(plain) if isinstance(plain, dict) else '[as_json/fields] not an object'
    seen = set()
    for sx in plain['simplices']:
        if not (isinstance(sx, dict) and {'id', 'faces', 'attributes'} <= set(sx)):
            return '[as_json/simplex-fields] simplex entry %r' % (sx,)
        for f in sx['faces']:
            if json.dumps(f) not in seen:
                return '[as_json/face-before-use] simplex %r is listed before its face %r' % (sx['id'], f)
        seen.add(json.dumps(sx['id']))
    listed = {tok(sx['id']) for sx in plain['simplices']}
    if listed != set(want):
        return '[as_json/wrong-simplices] the text lists %s, the complex%s has %s' % (
            sorted(listed)[:8], ' at its current index' if isinstance(c, Filtration) else '', sorted(want)[:8])
    def decoded_ok(d, how):
        if not isinstance(d, SimplicialComplex):
            return '[%s/not-a-complex] decoding gave %r' % (how, type(d).__name__)
        got = {tok(s): (d.orderOf(s), frozenset(map(tok, d.faces(s))), json.dumps(d[s], sort_keys=True)) for s in d.simplices()}
        if got != want:
            bad = sorted(set(got) ^ set(want))[:4] or [n for n in want if got[n] != want[n]][:3]
            return '[%s/round-trip-differs] decoded complex differs from the source on %s' % (how, bad)
        return None
    try:
        d = json.loads(text, object_hook=as_simplicial_complex)
    except Exception as e:
        return '[as_simplicial_complex/raises] decoding raised %s: %s' % (type(e).__name__, e)
    m = decoded_ok(d, 'as_simplicial_complex')
    if m: return m
    fd, path = tempfile.mkstemp(suffix='.json', dir='/var/tmp')
    os.close(fd)
    try:
        write_json(c, path)
        m = decoded_ok(read_json(path), 'read_json')
        if not m:
            # writing over an existing, longer file (an earlier, larger state of the same complex)
            with open(path, 'w') as fh:
                fh.write(text + ' ' * 64 + '\n{"left": "over"}\n')
            write_json(c, path)
            try:
                m = decoded_ok(read_json(path), 'read_json-after-overwrite')
            except ValueError as e:
                m = '[read_json/overwrite] write_json over an existing longer file, then read_json: %s' % e
        if not m:
            # every read decodes the file afresh: editing one result does not show in the next, and a file
            # replaced behind the library's back is read as it now is
            r1 = read_json(path)
            r1.addSimplex(id='__edited_after_reading__')
            m = decoded_ok(read_json(path), 'read_json-second-read')
            if not m:
                with open(path, 'w') as fh:
                    fh.write(as_json(SimplicialComplex()))
                r3 = read_json(path)
                if len(r3.simplices()) != 0:
                    m = '[read_json/stale] the file was replaced by the encoding of an empty complex, read_json still returns %d simplices' % len(r3.simplices())
    finally:
        os.unlink(path)
    if m: return m
    # wrapped in other JSON, next to objects without the marker
    other = {'n': 1, 'l': [1, 'x', None], 'o': {'__version__': 0.1, 'k': [True]}}
    wrapped = '{"first": %s, "cx": [%s], "rest": %s}' % (json.dumps(other), text, json.dumps(other))
    wv = json.loads(wrapped, object_hook=as_simplicial_complex)
    if wv['first'] != other or wv['rest'] != other:
        return '[as_simplicial_complex/passthrough] JSON objects without the marker were changed: %r' % (wv['first'],)
    m = decoded_ok(wv['cx'][0], 'as_simplicial_complex-wrapped')
    if m: return m
    if as_simplicial_complex(dict(other)) != other:
        return '[as_simplicial_complex/passthrough] an object without the marker is not returned unchanged'
    # objects that have some of the encoding's fields but not the marker are ordinary JSON data
    for look in ({'simplices': [], 'x': 1},
                 {'__version__': plain.get('__version__') if isinstance(plain, dict) else 0, 'simplices': [{'id': 1, 'faces': [], 'attributes': {}}]},
                 {'simplices': [{'id': 'p', 'faces': [], 'attributes': {'simplices': []}}]}):
        back = json.loads(json.dumps({'w': look, 'l': [look]}), object_hook=as_simplicial_complex)
        if back != {'w': look, 'l': [look]} or type(back['w']) is not dict:
            return '[as_simplicial_complex/passthrough] an object with a `simplices` field but without the marker was not passed through: %r -> %r' % (look, back['w'])
    return None

# ================================================================ C18
def binom(n, k):
    return math.comb(n, k) if 0 <= k <= n else 0

@oracle('c18-pre')
def o_c18_pre(w, args):
    v = args[0]
    c = w.vars.get(v)
    w.ostate['c18'] = {'rec': _record(c) if c is not None else {}, 'line': ' '.join(args[1:]),
                       'listing': [tok(s) for s in c.simplices()] if c is not None else [], 'ndicts': len(w.dicts)}
    return None

@oracle('c18-post')
def o_c18_post(w, args):
    v = args[0]; c = w.vars[v]; st = w.ostate['c18']; line = st['line']; toks = line.split()
    out = w.last_out
    g = toks[1]; n = int(toks[3])
    if g == 'ring' and n <= 2:
        return None if out == 'err ValueError' else '[ring/small-n] ring(%d) gave %s' % (n, out)
    before = st['rec']
    if out == 'err KeyError' and g == 'simplex' and toks[4] != '-' and toks[4] in before:
        return None          # the requested name was already in use
    if out.startswith('err'):
        return '[%s/raises] `%s` gave %s' % (g, line, out)
    if 'result-is-not-the-target' in out:
        return '[%s/not-into-target] `%s` was given a complex to build into and returned another one' % (g, line)
    after = _record(c)
    import builtins
    old_dicts = {builtins.id(c[s]): tok(s) for s in c.simplices() if tok(s) in st['rec']}
    for s in c.simplices():
        if tok(s) not in st['rec'] and builtins.id(c[s]) in old_dicts:
            return '[%s/shares-attributes] the new simplex %s uses the attribute dictionary of the pre-existing simplex %s' % (g, tok(s), old_dicts[builtins.id(c[s])])
    for nme, r in before.items():
        if after.get(nme) != r:
            return '[%s/modifies-target] pre-existing simplex %s: %r -> %r' % (g, nme, r, after.get(nme))
    new = {nme: r for nme, r in after.items() if nme not in before}
    newpts = {nme for nme, r in new.items() if r[0] == 0}
    for nme, r in new.items():
        if not r[2] <= newpts:
            return '[%s/not-on-fresh-points] new simplex %s uses pre-existing points %s' % (g, nme, sorted(r[2] - newpts))
    counts = {}
    for r in new.values():
        counts[r[0]] = counts.get(r[0], 0) + 1
    sets = {r[2] for r in new.values()}
    if g in ('simplex', 'void'):
        k = n if g == 'simplex' else n + 1
        top = k if g == 'simplex' else k - 1
        want = {j: binom(k + 1, j + 1) for j in range(top + 1)}
        if counts != want:
            return '[k_%s/counts] k=%d added %s simplices per order, expected %s' % (g, n, counts, want)
        allsub = {frozenset(x) for j in range(1, top + 2) for x in itertools.combinations(sorted(newpts), j)}
        if sets != allsub:
            return '[k_%s/family] the added vertex sets are not all the subsets of the %d fresh points up to order %d' % (g, k + 1, top)
        if g == 'simplex':
            T = impl.Toks(toks[4:]); id = T.optname()
            rest = toks[4 + T.i:]
            tops = [nme for nme, r in new.items() if r[0] == k]
            if id is not None and tops != [tok(id)]:
                return '[k_simplex/name] asked for the name %s, the top simplex is %s' % (tok(id), tops)
            want_attr = {} if rest[0] == '-' else (w.dicts[int(rest[0][1:])] if rest[0][0] == '#' else w.dicts[st['ndicts']])
            if json.loads(new[tops[0]][3]) != want_attr:
                return '[k_simplex/attr] top simplex attributes %s, expected %s' % (new[tops[0]][3], want_attr)
    elif g == 'skeleton':
        want = {0: n + 1}
        if n >= 1: want[1] = binom(n + 1, 2)
        if counts != want:
            return '[k_skeleton/counts] k=%d added %s, expected %s' % (n, counts, want)
        if {s for s in sets if len(s) == 2} != {frozenset(x) for x in itertools.combinations(sorted(newpts), 2)}:
            return '[k_skeleton/edges] the edges are not all pairs of the new points'
    elif g == 'ring':
        if counts != {0: n, 1: n}:
            return '[ring/counts] ring(%d) added %s' % (n, counts)
        deg = {p: 0 for p in newpts}
        for s in sets:
            if len(s) == 2:
                for p in s: deg[p] += 1
        if any(d != 2 for d in deg.values()):
            return '[ring/not-a-cycle] point degrees %s' % sorted(deg.values())
    if not before:
        b = own_betti(c); got = dict(c.bettiNumbers())
        if got != b:
            return '[%s/betti-api] bettiNumbers() %s, own %s' % (g, got, b)
        if g == 'simplex':
            want = {j: (1 if j == 0 else 0) for j in range(n + 1)}
        elif g == 'void':
            want = {j: 0 for j in range(n + 1)}; want[0] = 1; want[n] = want.get(n, 0) + 1
            if n == 0: want = {0: 2}
        elif g == 'skeleton':
            want = {0: 1}
            if n >= 1: want[1] = binom(n + 1, 2) - n
        else:
            want = {0: 1, 1: 1}
        if b != want:
            return '[%s/betti] Betti numbers %s, expected %s' % (g, b, want)
    return None

@oracle('c18-lattice')
def o_c18_lattice(w, args):
    c = w.vars[args[0]]; r = int(args[1]); cols = int(args[2])
    if len(c.simplicesOfOrder(0)) != r * cols:
        return '[TriangularLattice/points] %dx%d has %d points' % (r, cols, len(c.simplicesOfOrder(0)))
    if r >= 2:
        if components(c) != 1:
            return '[TriangularLattice/disconnected] %dx%d has %d components' % (r, cols, components(c))
        if c.eulerCharacteristic() != 1:
            return '[TriangularLattice/euler] %dx%d has Euler characteristic %d' % (r, cols, c.eulerCharacteristic())
        b = own_betti(c); want = {k: (1 if k == 0 else 0) for k in b}
        if b != want or dict(c.bettiNumbers()) != want:
            return '[TriangularLattice/betti] %dx%d has Betti numbers %s / %s' % (r, cols, b, dict(c.bettiNumbers()))
        if c.maxOrder() > 2:
            return '[TriangularLattice/order] maximum order %d' % c.maxOrder()
    return None

# ================================================================ C19
@oracle('c19')
def o_c19(w, args):
    """args: v key default"""
    c = w.vars[args[0]]; key = impl.unesc(args[1][1:]); default = int(args[2])
    counts = {}
    for s in c.simplices():
        counts[c.orderOf(s)] = counts.get(c.orderOf(s), 0) + 1
    chi = sum((-1) ** k * n for k, n in counts.items())
    if c.eulerCharacteristic() != chi:
        return '[eulerCharacteristic/formula] %d, the alternating sum of the counts %s is %d' % (c.eulerCharacteristic(), counts, chi)
    if not isinstance(c, Filtration):      # (own_betti reads per-order listings, which a filtration does not restrict to its index: C14)
        b = own_betti(c)
        if sum((-1) ** k * x for k, x in b.items()) != chi:
            return '[eulerCharacteristic/betti] alternating sum of the Betti numbers %s is not %d' % (b, chi)
    saved = full_obs(c) if not isinstance(c, Filtration) else None
    h = {}
    for p in [s for s in c.simplices() if c.orderOf(s) == 0]:       # (a filtration lists what is visible at its index)
        x = c[p].get(key, default)
        if impl._EXO['vmode'] == 'np' and hasattr(x, 'dtype') and x.dtype.kind in 'iu':
            x = int(x)              # a numpy integer scalar is an integer
        if type(x) is not int or x < 0:
            return None          # outside the contract of the integral
        h[tok(p)] = x
    fam = {tok(s): vs(c, s) for s in c.simplices()}
    simplexwise = sum((-1) ** (len(V) - 1) * min(h[p] for p in V) for V in fam.values())
    levels = 0
    H = max(h.values(), default=0)
    for l in range(0, H + 1):
        keep = {p for p in h if h[p] > l}
        levels += sum((-1) ** (len(V) - 1) for V in fam.values() if V <= keep)
    try:
        got = w.integrator(key, default).integrate(c)          # the script's own integrator object, used before
    except Exception as e:
        return '[integrate/raises] %s: %s' % (type(e).__name__, e)
    if simplexwise != levels:
        return 'oracle inconsistency %d %d' % (simplexwise, levels)
    if got != levels:
        return '[integrate/wrong-value] integrate = %r, the level-set sum and the simplex-wise sum are %d (heights %s, default %d)' % (got, levels, h, default)
    if saved is not None:
        d = obs_diff(saved, full_obs(c))
        if d is not None:
            return '[integrate/modifies-input] %s' % d
    return None

# ================================================================ C20
@oracle('c20-begin')
def o_c20_begin(w, args):
    w.ostate['c20:' + args[0]] = {'explicit': {}, 'computed': set()}
    return None

@oracle('c20')
def o_c20(w, args):
    """after an embedding command on <e>: compare with the shadow 'last explicit assignment since the last clear'"""
    e = args[0]; em = w.vars[e]; sh = w.ostate['c20:' + e]
    line = w.last_line; out = w.last_out; toks = line.split(); kw = toks[0]
    c = w.vars.get(w.embcx.get(e))                # the complex the script created the embedding on
    if c is None:
        c = em.complex()
    elif em.complex() is not c:
        return '[embedding/detached] the embedding does not hold the complex it was created on (it holds one with %d simplices, that one has %d)' % (len(em.complex().simplices()), len(c.simplices()))
    dim = em.dimension()
    pts = {tok(p) for p in c.simplicesOfOrder(0)} if c.maxOrder() >= 0 else set()
    order = lambda s: c.orderOf(s) if SimplicialComplex.containsSimplex(c, s) else None
    origin = '[ ' + ' '.join([float(0).hex()] * dim) + ' ]'
    if kw == 'pos':
        s = parse_name(toks[2]); p = toks[4:-1]
        if len(p) != dim:
            if out != 'err ValueError':
                return '[positionSimplex/wrong-dimension-accepted] %d coordinates in dimension %d gave %s' % (len(p), dim, out)
            return None
        if out != 'ok':
            return '[positionSimplex/rejected] a position of the right dimension gave %s' % out
        sh['explicit'][tok(s)] = '[ ' + ' '.join(float.fromhex(x).hex() for x in p) + ' ]'
        return None
    if kw == 'clear':
        sh['explicit'] = {}; sh['computed'] = set(); sh['calls0'] = len(em.calls)
        return None
    if kw == 'getpos':
        s = parse_name(toks[2]); k = order(s)
        if k is None:
            return None if out.startswith('err') else '[positionOf/unknown-simplex] gave %s' % out
        if k > 0:
            return None if out == 'err ValueError' else '[positionOf/higher-order] positionOf of a simplex of order %d gave %s' % (k, out)
        want = sh['explicit'].get(tok(s), origin)
        if out != 'ok ' + want:
            return '[positionOf/wrong-position] %s is at %s, expected %s' % (tok(s), out, want)
        if tok(s) not in sh['explicit']:
            sh['computed'].add(tok(s))
    if kw == 'positions':
        if toks[2] == '-':
            if out.startswith('err'):
                return '[positionsOf/raises] %s' % out
            body = out[out.index('{') + 1:out.rindex('}')].strip()
            got = {}
            for m in body.split(' ]'):
                m = m.strip()
                if m:
                    n, p = m.split(':[', 1); got[n] = '[ ' + p.strip() + ' ]'
            if set(got) != pts:
                return '[positionsOf/wrong-points] covers %s, the points are %s' % (sorted(got), sorted(pts))
            for n, p in got.items():
                if p != sh['explicit'].get(n, origin):
                    return '[positionsOf/wrong-position] %s at %s expected %s' % (n, p, sh['explicit'].get(n, origin))
                if n not in sh['explicit']:
                    sh['computed'].add(n)
    if kw == 'len':
        if out != 'ok %d' % len(pts):
            return '[len/wrong] len(embedding) gave %s, the complex has %d points' % (out, len(pts))
    if kw == 'in':
        s = parse_name(toks[2])
        if out != ('ok T' if tok(s) in pts else 'ok F'):
            return '[in/wrong] `%s in embedding` gave %s' % (tok(s), out)
    # computed once per point between clears
    calls = [tok(x) for x in em.calls[sh.get('calls0', 0):]]
    if len(set(calls)) != len(calls):
        return '[positionOf/computed-twice] computePositionOf called more than once for a point: %s' % calls
    return None

@oracle('c20-dist')
def o_c20_dist(w, args):
    """the default distance is Euclidean: args = dim then 2*dim hex coordinates"""
    dim = int(args[0]); xs = [float.fromhex(x) for x in args[1:]]
    p, q = xs[:dim], xs[dim:]
    e = Embedding(SimplicialComplex(), dim)
    want = math.sqrt(sum((b - a) ** 2 for a, b in zip(p, q)))
    if impl._EXO['vmode'] == 'np' and all(x == int(x) and abs(x) <= 1.0e9 for x in xs):
        # the same points as fixed-width integers (pixel / grid coordinates read from an array)
        p = [numpy.int32(int(x)) for x in p]; q = [numpy.int32(int(x)) for x in q]
    try:
        got = e.distance(p, q)
    except Exception as ex:
        return '[distance/raises] distance(%s, %s): %s: %s' % (p, q, type(ex).__name__, ex)
    if not (got == want or abs(got - want) <= 4 * abs(want) * 2.0 ** -52):
        return '[distance/not-euclidean] distance(%s, %s) = %r, Euclidean %r' % (p, q, got, want)
    if e.distance(q, p) != got:
        return '[distance/asymmetric] %r / %r' % (got, e.distance(q, p))
    return None

@oracle('c20-lattice')
def o_c20_lattice(w, args):
    r = int(args[0]); cols = int(args[1]); h = float.fromhex(args[2]); wd = float.fromhex(args[3])
    c = TriangularLattice(r, cols); e = TriangularLatticeEmbedding(c, h, wd)
    pos = e.positionsOf()
    if set(pos) != set(c.simplicesOfOrder(0)):
        return '[lattice-embedding/points] positionsOf covers %d of %d points' % (len(pos), r * cols)
    seen = {}
    for p, (x, y) in pos.items():
        if not (0 <= x <= wd and 0 <= y <= h):
            return '[lattice-embedding/outside-box] %dx%d (h=%r, w=%r): point %r at (%r, %r)' % (r, cols, h, wd, p, x, y)
        if (x, y) in seen:
            return '[lattice-embedding/collision] %dx%d: points %r and %r both at (%r, %r)' % (r, cols, seen[(x, y)], p, x, y)
        seen[(x, y)] = p
    for p in c.simplicesOfOrder(0):
        i, j = divmod(p, cols)
        wx = (wd / (2 * cols)) * (2 * j + (i % 2)); wy = h - (h / r) * i
        if pos[p] != [wx, wy]:
            return '[lattice-embedding/position] %dx%d: point %d at %r, expected %r' % (r, cols, p, pos[p], [wx, wy])
    return None
