"""proofs.py -- re-check the proof obligations of one property and report their axioms."""
import os, re, subprocess, glob

VERIF = os.path.dirname(os.path.dirname(os.path.abspath(__file__)))
COQ = os.path.join(VERIF, 'coq')

# axioms the Coq standard library itself declares (DESIGN.md section 8); nothing else is accepted
ALLOWED_AXIOMS = {
    'functional_extensionality_dep', 'FunctionalExtensionality.functional_extensionality_dep',
    'classic', 'Classical_Prop.classic', 'proof_irrelevance', 'JMeq_eq', 'JMeq.JMeq_eq',
    'Eqdep.Eq_rect_eq.eq_rect_eq', 'eq_rect_eq', 'propositional_extensionality',
    'constructive_indefinite_description', 'constructive_definite_description',
}
ALLOWED_PREFIXES = ('FloatAxioms.', 'PrimFloat.', 'Uint63.', 'PrimInt63.', 'FloatOps.', 'FloatLemmas.',
                    'Uint63Axioms.', 'CarryType.', 'ClassicalDedekindReals.', 'Rdefinitions.', 'Raxioms.')
PRIMITIVES = re.compile(r'^(float|int|add|sub|mul|div|sqrt|abs|opp|eqb|ltb|leb|compare|classify|of_uint63|'
                        r'normfr_mantissa|frshiftexp|ldshiftexp|next_up|next_down|of_int63|to_int63|'
                        r'\w+_spec|Prim2SF_\w+|SF2Prim_\w+|\w+_equiv)$')

HYGIENE = re.compile(r'\b(Admitted|admit|Axiom|Axioms|Parameter|Parameters|Conjecture|Conjectures|'
                     r'Admit Obligations|bypass_check)\b|Unset\s+Guard|Unset\s+Positivity|Unset\s+Universe|'
                     r'type-in-type|impredicative-set')

def strip_comments(s):
    out = []; depth = 0; i = 0
    while i < len(s):
        if s.startswith('(*', i):
            depth += 1; i += 2
        elif s.startswith('*)', i) and depth > 0:
            depth -= 1; i += 2
        else:
            if depth == 0:
                out.append(s[i])
            i += 1
    return ''.join(out)

def hygiene():
    bad = []
    for f in sorted(glob.glob(os.path.join(COQ, '*.v')) + glob.glob(os.path.join(COQ, 'Props', '*.v'))):
        src = strip_comments(open(f).read())
        for m in HYGIENE.finditer(src):
            bad.append('%s: %s' % (os.path.relpath(f, VERIF), m.group(0)))
        # Variable / Hypothesis outside a Section
        depth = 0
        for line in src.split('\n'):
            t = line.strip()
            if re.match(r'^Section\b', t): depth += 1
            elif re.match(r'^End\b', t) and depth > 0: depth -= 1
            elif depth == 0 and re.match(r'^(Variable|Variables|Hypothesis|Hypotheses|Context)\b', t):
                bad.append('%s: %s outside a section' % (os.path.relpath(f, VERIF), t.split()[0]))
    return bad

def check(pid, build_ok=True, thorough=False):
    path = os.path.join(COQ, 'Props', pid + '.v')
    res = {'obligations': 0, 'discharged': 0, 'problems': '', 'axioms': [], 'theorems': [],
           'checker_cmd': 'make -C coq (coqc 8.16.1, full .vo build) + coqc coq/Props/%s.v (Print Assumptions)' % pid,
           'partial': [], 'refuted': []}
    problems = []
    if not os.path.exists(path):
        res['problems'] = 'coq/Props/%s.v does not exist' % pid
        return res
    src = strip_comments(open(path).read())
    thms = re.findall(r'^\s*Theorem\s+(\w+)', src, re.M)
    res['theorems'] = thms
    res['obligations'] = len(thms)
    res['partial'] = [t for t in thms if t.endswith('_partial')]
    res['refuted'] = [t for t in thms if t.endswith('_refuted')]
    hb = hygiene()
    if hb:
        problems.append('hygiene: ' + '; '.join(hb[:5]))
    if not build_ok:
        problems.append('the Coq development does not build (see build/coq_build.log)')
        res['problems'] = ' | '.join(problems); return res
    p = subprocess.run(['timeout', '600', 'coqc', '-R', COQ, 'SV', '-w', '-all', path], capture_output=True, text=True)
    if p.returncode != 0:
        problems.append('coqc rejects Props/%s.v: %s' % (pid, (p.stderr or p.stdout)[-400:]))
        res['problems'] = ' | '.join(problems); return res
    out = p.stdout
    # one block per Print Assumptions, in file order
    blocks = re.split(r'(?m)^(?=Closed under the global context|Axioms:)', out)
    blocks = [b for b in blocks if b.startswith('Closed under') or b.startswith('Axioms:')]
    printed = re.findall(r'Print\s+Assumptions\s+(\w+)', src)
    if [t for t in thms if t not in printed]:
        problems.append('no Print Assumptions for: %s' % [t for t in thms if t not in printed])
    if len(blocks) != len(printed):
        problems.append('expected %d Print Assumptions blocks, coqc printed %d' % (len(printed), len(blocks)))
    ok = 0; axioms = set()
    for name, b in zip(printed, blocks):
        if b.startswith('Closed under'):
            if name in thms: ok += 1
            continue
        names = re.findall(r'(?m)^([\w.\']+)\s*:', b[len('Axioms:'):])
        badax = []
        for n in names:
            short = n.split('.')[-1]
            if n in ALLOWED_AXIOMS or short in ALLOWED_AXIOMS or n.startswith(ALLOWED_PREFIXES) or PRIMITIVES.match(short):
                axioms.add(n)
            else:
                badax.append(n)
        if badax:
            problems.append('%s depends on axioms outside the allow-list: %s' % (name, badax))
        elif name in thms:
            ok += 1
    res['discharged'] = ok
    res['axioms'] = sorted(axioms)
    if thorough:
        cmd = ['timeout', '3600', 'coqchk', '-silent', '-o', '-R', COQ, 'SV', 'SV.Props.' + pid]
        q = subprocess.run(cmd, capture_output=True, text=True)
        res['coqchk'] = (q.stdout + q.stderr)[-1500:]
        res['checker_cmd'] += ' + ' + ' '.join(cmd[2:])
        if q.returncode == 124:
            # the independent re-check did not finish within an hour (a loaded machine): not a verdict about the proofs,
            # which coqc has accepted above; recorded in the evidence, not reported as a broken obligation
            res['coqchk'] = 'TIMED OUT after 3600 s (not a verdict; the theorems were accepted by coqc): ' + res['coqchk']
        elif q.returncode != 0:
            problems.append('coqchk fails on Props/%s.vo: %s' % (pid, (q.stdout + q.stderr)[-300:]))
    res['problems'] = ' | '.join(problems)
    return res
