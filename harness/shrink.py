"""shrink.py -- delta debugging of a failing script (oracle failure or model/implementation diff)."""
import re
from harness import run

def _sig(msg):
    m = re.match(r'^ORACLE-FAIL (\S+) \[([^\]]+)\]', msg)
    if m: return m.group(2)
    m = re.match(r'^ORACLE-FAIL (\S+)', msg)
    return (m.group(1) + '/unclassified') if m else None

def _oracle_fails(script, sig):
    from harness import impl
    ann, outs = impl.run_script(script)
    return any(x.startswith('ORACLE-FAIL') and _sig(x) == sig for o in outs for x in o)

def _has_diff(script, target=None):
    """a model/implementation difference -- the same one when `target` (command, impl output,
    model output) is given"""
    try:
        diffs, _, _ = run.compare([script], procs=1)
    except Exception:
        return False          # a candidate the harness cannot even run is not a smaller witness
    if target is None:
        return len(diffs) > 0
    return any((d[2].split('\n')[0], d[3], d[4]) == target for d in diffs)

def _units(script):
    if 'echo --' not in script:
        return [[l] for l in script]
    units = [[]]
    for l in script:
        if l == 'echo --':
            units.append([l])
        else:
            units[-1].append(l)
    return [u for u in units if u]

def _ddmin(script, test, budget=400):
    units = _units(script)
    flat = lambda us: [l for u in us for l in u]
    if len(units) != len(script):
        head, rest = units[:1], units[1:]
        rest = _ddmin_list(rest, lambda us: test(flat(head + us)), budget)
        return flat(head + rest)
    return _ddmin_list(list(script), test, budget)

def _ddmin_list(script, test, budget=400):
    cur = list(script)
    # cut the tail after the first failing point is not known here: plain one-at-a-time + chunks
    n = 2
    while len(cur) >= 2 and budget > 0:
        size = max(1, len(cur) // n)
        removed = False
        i = 0
        while i < len(cur) and budget > 0:
            cand = cur[:i] + cur[i + size:]
            budget -= 1
            if cand and test(cand):
                cur = cand; removed = True
            else:
                i += size
        if not removed:
            if size == 1: break
            n = min(len(cur), n * 2)
    return cur

def shrink_oracle(script, oracle_name, sig):
    import os
    if os.environ.get('VERIF_NOSHRINK'):
        return script
    try:
        if not _oracle_fails(script, sig):
            return script
        return _ddmin(script, lambda s: _oracle_fails(s, sig))
    except Exception:
        return script

def shrink_diff(script, target=None):
    import os
    if os.environ.get('VERIF_NOSHRINK'):
        return script
    try:
        if not _has_diff(script, target):
            return script
        return _ddmin(script, lambda s: _has_diff(s, target), budget=150)
    except Exception:
        return script
