"""run.py -- run scripts on the implementation and on the extracted model, and diff."""
import os, sys, subprocess, multiprocessing, hashlib, json, time

VERIF = os.path.dirname(os.path.dirname(os.path.abspath(__file__)))
DRIVER = os.path.join(VERIF, 'build', 'driver')

SCRIPT_TIMEOUT = int(os.environ.get('VERIF_SCRIPT_TIMEOUT', '60'))

class _Timeout(Exception):
    pass

def _alarm(signum, frame):
    raise _Timeout()

def _impl_shard(scripts):
    import signal, resource
    from harness import impl
    try:
        resource.setrlimit(resource.RLIMIT_AS, (6 << 30, 6 << 30))     # a runaway script must not take the machine down
    except Exception:
        pass
    signal.signal(signal.SIGALRM, _alarm)
    out = []
    for sc in scripts:
        signal.alarm(SCRIPT_TIMEOUT)
        try:
            out.append(impl.run_script(sc))
        except (_Timeout, MemoryError) as e:
            # reported like an oracle failure of the script's first line
            outs = [['ORACLE-FAIL harness [harness/%s] the implementation did not finish this script within %ds / 6 GB' % (
                'timeout' if isinstance(e, _Timeout) else 'out-of-memory', SCRIPT_TIMEOUT)]] + [[] for _ in sc[1:]]
            out.append((['echo ' + l for l in sc], outs))
        finally:
            signal.alarm(0)
    return out

def run_impl(scripts, procs=None):
    """scripts: list of list-of-lines.  Returns list of (annotated lines, outputs per line)."""
    if procs is None:
        procs = min(16, max(1, len(scripts) // 20))
    if procs <= 1:
        return _impl_shard(scripts)
    n = len(scripts); size = (n + procs - 1) // procs
    shards = [scripts[i:i + size] for i in range(0, n, size)]
    with multiprocessing.get_context('fork').Pool(len(shards)) as pool:
        res = pool.map(_impl_shard, shards)
    return [x for r in res for x in r]

def _model_shard(ann_scripts):
    """Feeds the annotated scripts to the driver; a marker line separates commands so that the
    outputs can be attributed line by line."""
    inp = []
    for sc in ann_scripts:
        inp.append('reset')
        for l in sc:
            inp.append(l); inp.append('echo @@')      # l may hold several commands, one per line
    p = subprocess.run([DRIVER], input='\n'.join(inp) + '\n', capture_output=True, text=True)
    if p.returncode != 0:
        raise RuntimeError('model driver failed: rc=%d %s %s' % (p.returncode, p.stdout[-500:], p.stderr[-500:]))
    lines = p.stdout.split('\n')
    res = []; i = 0
    for sc in ann_scripts:
        assert lines[i] == 'ok reset', lines[i]; i += 1
        outs = []
        for l in sc:
            cur = []
            while lines[i] != 'echo @@':
                cur.append(lines[i]); i += 1
            i += 1
            if l.startswith('echo @sync'):
                # a `sync` reconstruction: must replay without any rejection
                bad = [x for x in cur[1:] if not x.startswith('ok')]
                cur = ['ok sync'] if not bad else ['SYNC-FAILED ' + ' ; '.join(bad[:3])]
            outs.append(cur)
        res.append(outs)
    return res

def run_model(ann_scripts, procs=None):
    if procs is None:
        procs = min(16, max(1, len(ann_scripts) // 50))
    if procs <= 1:
        return _model_shard(ann_scripts)
    n = len(ann_scripts); size = (n + procs - 1) // procs
    shards = [ann_scripts[i:i + size] for i in range(0, n, size)]
    with multiprocessing.get_context('fork').Pool(len(shards)) as pool:
        res = pool.map(_model_shard, shards)
    return [x for r in res for x in r]

def compare(scripts, procs=None):
    """Returns (diffs, impl_results, stats).  A diff is (script index, line index, line, impl out, model out)."""
    impl_res = run_impl(scripts, procs)
    ann = [a for (a, _) in impl_res]
    model_res = run_model(ann, procs)
    diffs = []
    for si, ((a, io), mo) in enumerate(zip(impl_res, model_res)):
        for li, (x, y) in enumerate(zip(io, mo)):
            if a[li].startswith('echo') and not a[li].startswith('echo @sync'):
                continue
            if x != y:
                diffs.append((si, li, a[li], x, y))
                break          # first difference of a script localises it
    return diffs, impl_res, model_res
