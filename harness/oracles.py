"""oracles.py -- executable statements of the properties, evaluated on the implementation through
its public API only (plus id() for object identity).  Independent of the Coq model: own subset /
closure computations, own GF(2) elimination, own union-find.  Each oracle returns None when the
property holds on what it looked at, or a short message saying what fails.

Oracles are invoked from scripts by `check <name> <args...>` lines (implementation side only).
"""
import itertools, random, re, copy as _copy, json
from harness import impl
from harness.impl import tok, parse_name, SimplicialComplex, Filtration

REG = {}
def oracle(name):
    def deco(f):
        REG[name] = f; return f
    return deco

def run(w, name, args):
    try:
        return REG[name](w, args)
    except KeyError as e:
        # a variable the check refers to does not exist (its constructor was rejected): nothing to check
        if e.args and e.args[0] in args and e.args[0] not in w.vars:
            return None
        if e.args and isinstance(e.args[0], str) and e.args[0].startswith('saved:'):
            return None
        raise

AUTO = re.compile(r'^\d+d\d+$')
def is_auto(n):
    return type(n) is str and AUTO.match(n) is not None

# ---------------------------------------------------------------- observation helpers
def attrs_copy(d):
    return json.loads(json.dumps(d, sort_keys=True))

def mat_tuple(B):
    nr, nc = B.shape
    return (nr, nc, tuple(tuple(int(B[i, j]) if B[i, j] == int(B[i, j]) else float(B[i, j]) for j in range(nc)) for i in range(nr)))

def full_obs(c):
    """Every observable of a complex the properties mention, as plain comparable data."""
    base = SimplicialComplex
    mx = c.maxOrder()
    obs = {'max': mx,
           'orders': [list(map(tok, c.simplicesOfOrder(k))) for k in range(mx + 1)],
           'all': list(map(tok, c.simplices())),
           'simp': {}, 'bops': []}
    for s in c.simplices():
        obs['simp'][tok(s)] = (c.orderOf(s), c.indexOf(s), sorted(map(tok, c.faces(s))), sorted(map(tok, c.cofaces(s))),
                               sorted(map(tok, c.basisOf(s))), json.dumps(c[s], sort_keys=True))
    for k in range(mx + 2):
        obs['bops'].append(mat_tuple(c.boundaryOperator(k)))
    if isinstance(c, Filtration):
        obs['index'] = c.getIndex(); obs['indices'] = list(c.indices())
        obs['births'] = {tok(s): c.addedAtIndex(s) for s in c.simplices()}
    return obs

def obs_diff(a, b):
    for k in a:
        if k not in b or a[k] != b[k]:
            if k == 'simp':
                for s in sorted(set(a[k]) | set(b.get(k, {}))):
                    if a[k].get(s) != b.get(k, {}).get(s):
                        return 'simplex %s: %r -> %r' % (s, a[k].get(s), b.get(k, {}).get(s))
            return '%s: %r -> %r' % (k, a[k], b.get(k))
    return None

def family(c):
    """name -> frozenset of the names of its vertices."""
    return {s: frozenset(c.basisOf(s)) for s in c.simplices()}

# ================================================================ C01
def wf_message(c):
    ss = c.simplices()
    toks = [tok(s) for s in ss]
    for t in toks:
        if t.startswith('?'):
            return 'simplices() returns a name of a foreign type: %s' % t
    if len(set(toks)) != len(toks):
        return 'simplices() lists a simplex more than once: %s' % toks
    mx = c.maxOrder()
    per = [c.simplicesOfOrder(k) for k in range(mx + 1)]
    flat = [s for l in per for s in l]
    if [tok(s) for s in flat] != toks:
        return 'per-order listings %s do not partition simplices() %s' % ([list(map(tok, l)) for l in per], toks)
    orders = [c.orderOf(s) for s in ss]
    if orders != sorted(orders):
        return 'simplices() not in non-decreasing order: %s' % orders
    populated = [k for k in range(mx + 1) if per[k]]
    if ss and mx != max(orders):
        return 'maxOrder() is %d but the largest order holding a simplex is %d' % (mx, max(orders))
    if not ss and mx != -1:
        return 'maxOrder() is %d on a complex without simplices' % mx
    if ss and (not per[mx]):
        return 'maxOrder() is %d but that order is empty' % mx
    if c.simplicesOfOrder(mx + 1):
        return 'order above the maximum is populated'
    for k in range(mx + 1):
        if not per[k] and ss:
            return 'order %d below the maximum is empty' % k
        for s in per[k]:
            if c.orderOf(s) != k:
                return 'simplex %s listed at order %d has orderOf %d' % (tok(s), k, c.orderOf(s))
    bases = {}
    for s in ss:
        k = c.orderOf(s)
        fs = c.faces(s); fl = list(fs)
        bs = c.basisOf(s)
        if len(set(map(tok, bs))) != k + 1:
            return 'simplex %s of order %d has a basis of %d points: %s' % (tok(s), k, len(bs), sorted(map(tok, bs)))
        for b in bs:
            if not has(c, b) or c.orderOf(b) != 0:
                return 'basis element %s of %s is not a point of the complex' % (tok(b), tok(s))
        if k == 0:
            if len(fl) != 0:
                return 'point %s has faces %s' % (tok(s), sorted(map(tok, fl)))
            if set(map(tok, bs)) != {tok(s)}:
                return 'point %s has basis %s' % (tok(s), sorted(map(tok, bs)))
        else:
            if len(fl) != k + 1 or len(set(map(tok, fl))) != k + 1:
                return 'simplex %s of order %d has %d faces: %s' % (tok(s), k, len(fl), sorted(map(tok, fl)))
            for f in fl:
                if not has(c, f):
                    return 'face %s of %s is not in the complex' % (tok(f), tok(s))
                if c.orderOf(f) != k - 1:
                    return 'face %s of %s has order %d, not %d' % (tok(f), tok(s), c.orderOf(f), k - 1)
            fb = {frozenset(map(tok, c.basisOf(f))) for f in fl}
            want = {frozenset(x) for x in itertools.combinations(sorted(map(tok, bs)), k)}
            if fb != want:
                return 'faces of %s do not span the %d-subsets of its basis' % (tok(s), k)
        key = frozenset(map(tok, bs))
        if key in bases:
            return 'simplices %s and %s share the basis %s' % (bases[key], tok(s), sorted(key))
        bases[key] = tok(s)
    return None

@oracle('wf')
def o_wf(w, args):
    return wf_message(w.vars[args[0]])

# ================================================================ C03
def closure_points(c, s):
    """points in the closure of s, walking faces (independent of basisOf)"""
    level = {tok(s): s}
    while level and c.orderOf(next(iter(level.values()))) > 0:
        nxt = {}
        for t in level.values():
            for f in c.faces(t):
                nxt[tok(f)] = f
        level = nxt
    return set(level.keys())

def has(c, s):
    """membership by the listing, not by the library's `in` (which is itself under test)"""
    t = tok(s)
    return any(tok(x) == t for x in c.simplices())

def vs(c, s):
    """the vertex set of s as a frozenset of name tokens, read through faces() only: an oracle that
    used basisOf() to define the family would inherit a stale basis memo from the code under test"""
    return frozenset(closure_points(c, s))

def views_message(c, rnd):
    mx = c.maxOrder()
    per = [c.simplicesOfOrder(k) for k in range(mx + 1)]
    mats = []
    for k in range(mx + 2):
        B = c.boundaryOperator(k)
        nr, nc = B.shape
        if k == 0:
            want = (1, len(per[0]) if mx >= 0 else 0)
        elif k <= mx:
            want = (len(per[k - 1]), len(per[k]))
        else:
            want = (0, 0)
        if (nr, nc) != want:
            return 'boundaryOperator(%d) has shape %s, expected %s' % (k, (nr, nc), want)
        M = [[B[i, j] for j in range(nc)] for i in range(nr)]
        for i in range(nr):
            for j in range(nc):
                if k == 0:
                    exp = 0
                else:
                    exp = 1 if tok(per[k - 1][i]) in set(map(tok, c.faces(per[k][j]))) else 0
                if M[i][j] != exp:
                    return 'boundaryOperator(%d)[%d,%d] is %r but %s %s a face of %s' % (
                        k, i, j, M[i][j], tok(per[k - 1][i]) if k else '-', 'is' if exp else 'is not', tok(per[k][j]))
        mats.append(M)
    # consecutive operators multiply to zero mod 2
    for k in range(1, mx + 1):
        A = mats[k - 1]; Bm = mats[k]
        if k - 1 == 0:
            continue          # the 1 x n0 zero row times anything is zero
        for i in range(len(A)):
            for j in range(len(Bm[0]) if Bm else 0):
                if sum(A[i][l] * Bm[l][j] for l in range(len(Bm))) % 2 != 0:
                    return 'boundaryOperator(%d) * boundaryOperator(%d) is not zero mod 2' % (k - 1, k)
    ss = c.simplices()
    for s in ss:
        k = c.orderOf(s)
        if per[k][c.indexOf(s)] is not s and tok(per[k][c.indexOf(s)]) != tok(s):
            return 'indexOf(%s) = %d is not its position in the listing of order %d' % (tok(s), c.indexOf(s), k)
        cf = set(map(tok, c.cofaces(s)))
        want = {tok(t) for t in (per[k + 1] if k + 1 <= mx else []) if tok(s) in set(map(tok, c.faces(t)))}
        if cf != want:
            return 'cofaces(%s) = %s but it is a face of exactly %s' % (tok(s), sorted(cf), sorted(want))
        if set(map(tok, c.basisOf(s))) != closure_points(c, s):
            return 'basisOf(%s) = %s but the points of its closure are %s' % (
                tok(s), sorted(map(tok, c.basisOf(s))), sorted(closure_points(c, s)))
    # boundary of chains = mod-2 sum of the members' faces; boundary of a boundary is empty
    for k in range(1, mx + 1):
        for _ in range(4):
            m = rnd.randint(1, min(5, len(per[k])))
            chain = rnd.sample(per[k], m)
            if rnd.random() < 0.3:
                chain = chain + [rnd.choice(chain)]       # a repeated member cancels itself
            want = {}
            for s in chain:
                for f in c.faces(s):
                    want[tok(f)] = want.get(tok(f), 0) + 1
            want = {t for t, n in want.items() if n % 2 == 1}
            got = c.boundary(list(chain))
            if set(map(tok, got)) != want:
                return 'boundary(%s) = %s but the mod-2 sum of the faces is %s' % (
                    list(map(tok, chain)), sorted(map(tok, got)), sorted(want))
            bb = c.boundary(list(got)) if k >= 2 or True else set()
            if k >= 2 and len(bb) != 0:
                return 'boundary(boundary(%s)) = %s is not empty' % (list(map(tok, chain)), sorted(map(tok, bb)))
    return None

@oracle('views')
def o_views(w, args):
    return views_message(w.vars[args[0]], random.Random(int(args[1]) if len(args) > 1 else 0))

# ================================================================ C05
@oracle('save')
def o_save(w, args):
    w.ostate['saved:' + args[0]] = full_obs(w.vars[args[0]])
    return None

@oracle('rejected-clean')
def o_rejected_clean(w, args):
    """the last request on <v> must have raised KeyError/ValueError and left <v> as saved"""
    out = w.last_out
    if out not in ('err KeyError', 'err ValueError'):
        return 'invalid request `%s` was not rejected with KeyError/ValueError: %s' % (w.last_line, out)
    d = obs_diff(w.ostate['saved:' + args[0]], full_obs(w.vars[args[0]]))
    if d is not None:
        return 'rejected request `%s` changed the complex: %s' % (w.last_line, d)
    return None

@oracle('unchanged')
def o_unchanged(w, args):
    d = obs_diff(w.ostate['saved:' + args[0]], full_obs(w.vars[args[0]]))
    if d is not None:
        return '`%s` changed %s: %s' % (w.last_line, args[0], d)
    return None

def twin_message(a, b):
    """a and b received the same accepted calls (a also some rejected ones): they must be the same
    complex up to the names the library generated -- points matched by listing position, the
    other simplices by vertex set."""
    pa = a.simplicesOfOrder(0); pb = b.simplicesOfOrder(0)
    if len(pa) != len(pb):
        return 'different numbers of points: %d / %d' % (len(pa), len(pb))
    phi = {}
    for x, y in zip(pa, pb):
        if tok(x) != tok(y) and not (is_auto(x) and is_auto(y)):
            return 'point %s corresponds to %s' % (tok(x), tok(y))
        phi[tok(x)] = tok(y)
    if a.maxOrder() != b.maxOrder():
        return 'maxOrder %d / %d' % (a.maxOrder(), b.maxOrder())
    for k in range(a.maxOrder() + 1):
        fa = {frozenset(phi[tok(p)] for p in a.basisOf(s)): s for s in a.simplicesOfOrder(k)}
        fb = {frozenset(tok(p) for p in b.basisOf(s)): s for s in b.simplicesOfOrder(k)}
        if set(fa) != set(fb):
            return 'order %d: vertex sets only with the rejected calls: %s ; only without: %s' % (
                k, sorted(map(sorted, set(fa) - set(fb)))[:3], sorted(map(sorted, set(fb) - set(fa)))[:3])
        for V, s in fa.items():
            t = fb[V]
            if tok(s) != tok(t) and not (is_auto(s) and is_auto(t)):
                return 'simplex on %s is named %s / %s' % (sorted(V), tok(s), tok(t))
            if json.dumps(a[s], sort_keys=True) != json.dumps(b[t], sort_keys=True):
                return 'attributes of %s differ: %s / %s' % (tok(s), a[s], b[t])
    return None

@oracle('twin')
def o_twin(w, args):
    """<a> went through rejected calls that <b> never saw: they must agree up to library-generated names"""
    m = twin_message(w.vars[args[0]], w.vars[args[1]])
    return None if m is None else '[continuation-differs] after rejected calls the history diverges from the one without them: ' + m

# ---------------------------------------------------------------- request classification
def _facets_of_one_simplex(c, fs):
    """fs (distinct, existing, all of order k-1, k+1 of them) are the facets of one vertex set"""
    k = len(fs) - 1
    bases = [frozenset(map(tok, c.basisOf(f))) for f in fs]
    V = frozenset().union(*bases)
    if len(V) != k + 1:
        return False
    return set(bases) == {frozenset(x) for x in itertools.combinations(sorted(V), k)}

def classify(c, line, w=None):
    """'valid' | 'invalid' (the library documents it as an error: C05) | 'ooc' (outside every
    contract: neither required to work nor required to be rejected), for a mutating request on c,
    decided from the state before the call and independently of what the code does."""
    toks = line.split()
    kw = toks[0]
    T = impl.Toks(toks[2:])
    names = lambda: T.names()
    if kw == 'add':
        fs = names(); id = T.optname()
        if id is not None and has(c, id):
            return 'invalid'
        if any(not has(c, f) for f in fs):
            return 'invalid'
        if len(set(map(tok, fs))) != len(fs):
            return 'invalid'
        if len(fs) == 0:
            return 'valid'
        if len(fs) == 1:
            return 'invalid'
        k = len(fs) - 1
        if any(c.orderOf(f) != k - 1 for f in fs):
            return 'invalid'
        want = set(map(tok, fs))
        for t in c.simplicesOfOrder(k):
            if set(map(tok, c.faces(t))) == want:
                return 'invalid'
        return 'valid' if _facets_of_one_simplex(c, fs) else 'ooc'
    if kw == 'addb':
        bs = names(); id = T.optname()
        if len(bs) == 0 or len(set(map(tok, bs))) != len(bs):
            return 'ooc'
        if id is not None and has(c, id):
            return 'invalid'
        if any(has(c, b) and c.orderOf(b) != 0 for b in bs):
            return 'invalid'
        if all(has(c, b) for b in bs):
            want = set(map(tok, bs))
            for t in c.simplicesOfOrder(len(bs) - 1):
                if set(map(tok, c.basisOf(t))) == want:
                    return 'invalid'
        if len(bs) == 1:
            return 'ooc'
        if id is not None and tok(id) in set(map(tok, bs)):
            return 'ooc'
        return 'valid'
    if kw == 'ensure':
        bs = names()
        if any(has(c, b) and c.orderOf(b) != 0 for b in bs):
            return 'invalid'
        return 'valid' if len(set(map(tok, bs))) == len(bs) else 'ooc'
    if kw == 'del':
        return 'valid' if has(c, T.name()) else 'invalid'
    if kw == 'delb':
        bs = names()
        if len(bs) == 0 or len(set(map(tok, bs))) != len(bs):
            return 'ooc'
        if any(not has(c, b) or c.orderOf(b) != 0 for b in bs):
            return 'invalid'
        want = set(map(tok, bs))
        ok = any(set(map(tok, c.basisOf(t))) == want for t in c.simplices())
        return 'valid' if ok else 'invalid'
    if kw == 'dels':
        return 'valid'
    if kw == 'restrict':
        bs = names()
        if any(not has(c, b) or c.orderOf(b) != 0 for b in bs):
            return 'invalid'
        return 'valid'
    if kw == 'subdiv':
        s = T.name()
        if not has(c, s) or c.orderOf(s) == 0:
            return 'invalid'
        return 'valid'
    if kw == 'relabel1':
        s = T.name(); q = T.name()
        if not has(c, s) or has(c, q):
            return 'invalid'
        return 'valid'
    if kw == 'relabel':
        kind = T.next()
        if kind == 'map':
            l = T.names(); m = {}
            for i in range(0, len(l), 2):
                m[tok(l[i])] = l[i + 1]
            ss = c.simplices()
            changed = {tok(s): m[tok(s)] for s in ss if tok(s) in m and tok(m[tok(s)]) != tok(s)}
            stay = {tok(s) for s in ss if tok(s) not in changed}
            new = [tok(x) for x in changed.values()]
            if any(n in stay for n in new):
                return 'invalid'
            if len(set(new)) != len(new):
                return 'invalid'            # two simplices onto one name
            if any(n in changed for n in new):
                return 'chain'              # in the contract of C15; the code rejects some (known finding)
            return 'valid'
        return 'fn'
    if kw == 'addfrom' and w is not None:
        src = w.vars.get(toks[2])
        if src is None:
            return 'other'
        kind = toks[3]
        names = src.simplices()
        if kind == '-':
            new = list(names)
        elif kind == 'map':
            T2 = impl.Toks(toks[4:]); l = T2.names()
            m = {tok(l[i]): l[i + 1] for i in range(0, len(l), 2)}
            new = [m.get(tok(x), x) for x in names]
        elif kind == 'tup':
            new = [(x, int(toks[4])) for x in names]
        elif kind == 'count':
            new = [int(toks[4]) + i for i in range(len(names))]
        else:
            return 'other'
        nt = [tok(x) for x in new]
        if len(set(nt)) != len(nt) or any(has(c, x) for x in new):
            return 'ooc'        # bulk add onto names in use: not a documented atomic rejection
        return 'valid'
    if kw == 'copyinto':
        return 'cx'
    return 'other'

@oracle('c05-pre')
def o_c05_pre(w, args):
    """before a request on <v>: classify it from the current state and save the observables"""
    v = args[0]; line = ' '.join(args[1:])
    c = w.vars[v]
    kw = args[1]
    cls = classify(c, line)
    if kw == 'copyinto':
        other = w.vars[args[3]]
        cls = 'invalid' if set(map(tok, c.simplices())) & set(map(tok, other.simplices())) else 'valid'
        w.ostate['saved:' + args[3]] = full_obs(other)
    w.ostate['c05'] = (cls, kw, line)
    w.ostate['saved:' + v] = full_obs(c)
    return None

@oracle('c05-post')
def o_c05_post(w, args):
    v = args[0]
    cls, kw, line = w.ostate.get('c05', ('other', '', ''))
    out = w.last_out
    rejected = out.startswith('err')
    must_reject = (cls == 'invalid')
    if must_reject and out not in ('err KeyError', 'err ValueError'):
        return '[%s/invalid-not-rejected] `%s` is invalid but gave: %s' % (kw, line, out)
    if must_reject or (kw == 'relabel' and rejected):
        target = v
        if kw == 'copyinto':
            target = line.split()[2]
        d = obs_diff(w.ostate['saved:' + target], full_obs(w.vars[target]))
        if d is not None:
            return '[%s/rejected-but-changed] rejected `%s` changed the complex: %s' % (kw, line, d)
        if kw == 'copyinto':
            d = obs_diff(w.ostate['saved:' + v], full_obs(w.vars[v]))
            if d is not None:
                return '[%s/rejected-but-changed-source] rejected `%s` changed the source: %s' % (kw, line, d)
    return None

from harness import oracles2, oracles3, oracles4      # register the remaining oracles
