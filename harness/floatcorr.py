"""floatcorr.py -- the tie between the binary64 model (coq/Floats.v) and the code, bit for bit.

The floating-point parts of the library (Embedding.distance, the `<= eps` test of
vietorisRipsComplex, TriangularLatticeEmbedding.computePositionOf) are modelled with Coq's
primitive floats.  This step draws inputs, runs the implementation on them, writes a `cases.v`
carrying the inputs and the implementation's results as hexadecimal literals, and has coqc
evaluate the model on the same inputs (vm_compute) and compare inside Coq: equal as numbers and
equal in the sign of zero.  What is printed is the list of case numbers that differ.

Out of the model's scope (not generated): coordinates whose squared difference overflows
(math.pow raises OverflowError where the model yields infinity), NaN and infinities."""
import math, os, random, subprocess, tempfile, shutil, sys

COQ = os.path.join(os.path.dirname(os.path.dirname(os.path.abspath(__file__))), 'coq')

def fl(x):
    return '(%s)' % float(x).hex()

def flist(p):
    return '[' + '; '.join(fl(x) for x in p) + ']'

def draw_coord(rnd, kind):
    if kind == 0: return float(rnd.randint(-5, 5))
    if kind == 1: return rnd.randint(-30, 30) / 10.0
    if kind == 2: return rnd.uniform(-3, 3)
    if kind == 3: return rnd.choice([0.0, -0.0, 5e-324, -5e-324, 2.2250738585072014e-308, 1e-200, 1e-160, 1.5e-154])
    if kind == 4: return rnd.uniform(-1, 1) * 10.0 ** rnd.randint(-150, 150)
    if kind == 6:      # Python ints (not floats), also large ones: exactly representable, so the model's doubles are the same numbers
        return rnd.choice([rnd.randint(-9, 9), rnd.randint(-2 ** 33, 2 ** 33), rnd.choice([-1, 1]) * 2 ** rnd.randint(30, 45) + rnd.randint(-3, 3)])
    return math.ldexp(rnd.random(), rnd.randint(-1000, 400))

RAISED = []      # finite inputs on which distance() raised something other than OverflowError

def reference_distance(p, q):
    """the Euclidean distance to 40 digits, from exact rational arithmetic"""
    import fractions, decimal
    s = sum((fractions.Fraction(b) - fractions.Fraction(a)) ** 2 for a, b in zip(p, q))
    with decimal.localcontext() as ctx:
        ctx.prec = 60
        return (decimal.Decimal(s.numerator) / decimal.Decimal(s.denominator)).sqrt()

def far_from_euclidean(p, q, d):
    """is d further from the true Euclidean distance than rounding can explain?"""
    import decimal
    ref = reference_distance(p, q)
    if d != d or d in (math.inf, -math.inf):
        return True
    err = abs(decimal.Decimal(d) - ref)
    tol = max(abs(ref) * decimal.Decimal(2) ** -48, decimal.Decimal(5e-324) * 4)
    if ref < decimal.Decimal(2.3e-308):
        tol = decimal.Decimal(1e-160)          # squares that underflow: the code loses them legitimately
    return err > tol

def gen_cases(rnd, n_dist, n_lat):
    from simplicial import SimplicialComplex, Embedding, TriangularLattice, TriangularLatticeEmbedding
    dist = []
    for i in range(n_dist):
        dim = rnd.randint(1, 4); kind = i % 7
        p = [draw_coord(rnd, kind) for _ in range(dim)]
        q = [draw_coord(rnd, kind if rnd.random() < 0.8 else rnd.randrange(7)) for _ in range(dim)]
        if rnd.random() < 0.1: q = list(p)
        e = Embedding(SimplicialComplex(), dim)
        try:
            d = e.distance(p, q)
        except OverflowError:
            continue            # outside the model's scope (see the module comment)
        except Exception as ex:
            RAISED.append({'kind': 'distance-raises', 'p': [float(x).hex() for x in p], 'q': [float(x).hex() for x in q],
                           'python_types': sorted({type(x).__name__ for x in p + q}), 'exception': '%s: %s' % (type(ex).__name__, ex)})
            continue
        d = float(d)
        # eps: at, just below, just above the distance, or unrelated
        eps = rnd.choice([d, math.nextafter(d, -math.inf), math.nextafter(d, math.inf), -1.0, 0.0, draw_coord(rnd, kind)])
        dist.append((p, q, d, eps, d <= eps))
    lat = []
    for i in range(n_lat):
        nr = rnd.randint(2, 7); nc = rnd.randint(1, 7)
        h = rnd.choice([1.0, 2.0, 0.5, 3.25, 10.0, rnd.uniform(0.1, 20)]); w = rnd.choice([1.0, 3.0, 4.0, 1.5, rnd.uniform(0.1, 20)])
        L = TriangularLattice(nr, nc); E = TriangularLatticeEmbedding(L, h, w)
        for n in rnd.sample(range(nr * nc), min(4, nr * nc)):
            x, y = E.positionOf(n)
            lat.append((nr, nc, h, w, n, float(x), float(y)))
    return dist, lat

HEADER = '''From Coq Require Import ZArith Uint63 PrimFloat List Arith Bool.
From SV Require Import Floats.
Import ListNotations.
Open Scope float_scope.
(* equal as numbers and in the sign of zero (no NaN among the cases) *)
Definition same (x y : float) : bool := PrimFloat.eqb x y && PrimFloat.eqb (1 / x) (1 / y).
Fixpoint failing {A} (ok : A -> bool) (l : list A) (i : nat) : list nat :=
  match l with [] => [] | c :: t => (if ok c then [] else [i]) ++ failing ok t (S i) end.
'''

def write_cases(path, dist, lat):
    with open(path, 'w') as f:
        f.write(HEADER)
        f.write('Definition dcases : list (list float * list float * float * float * bool) := [\n')
        f.write(';\n'.join('  (%s, %s, %s, %s, %s)' % (flist(p), flist(q), fl(d), fl(eps), 'true' if c else 'false') for p, q, d, eps, c in dist))
        f.write('].\n')
        f.write('Definition lcases : list (nat * nat * float * float * nat * float * float) := [\n')
        f.write(';\n'.join('  (%d%%nat, %d%%nat, %s, %s, %d%%nat, %s, %s)' % (nr, nc, fl(h), fl(w), n, fl(x), fl(y)) for nr, nc, h, w, n, x, y in lat))
        f.write('].\n')
        f.write('''Definition dok (c : list float * list float * float * float * bool) : bool :=
  let '(p, q, d, eps, cl) := c in same (distance p q) d && Bool.eqb (close eps p q) cl.
Definition lok (c : nat * nat * float * float * nat * float * float) : bool :=
  let '(nr, nc, h, w, n, x, y) := c in
  let '(mx, my) := lattice_pos nr nc h w n in same mx x && same my y.
Definition RESULT := (failing dok dcases 0, failing lok lcases 0).
Eval vm_compute in RESULT.
''')

def run(seed, n_dist, n_lat, keep=None):
    """returns (stats, failures): failures = list of dicts describing the cases on which model and code differ"""
    rnd = random.Random(seed)
    del RAISED[:]
    dist, lat = gen_cases(rnd, n_dist, n_lat)
    d = tempfile.mkdtemp(prefix='fc.', dir='/var/tmp')
    try:
        path = os.path.join(d, 'cases.v'); write_cases(path, dist, lat)
        r = subprocess.run(['coqc', '-R', COQ, 'SV', path], capture_output=True, text=True, timeout=600)
        out = r.stdout + r.stderr
        if r.returncode != 0 or '= (' not in out:
            return {'error': out[-800:]}, [{'kind': 'coqc', 'message': out[-800:]}]
        body = out[out.index('= (') + 2: out.index(': list nat')]
        body = ' '.join(body.split())
        a, b = body.strip().lstrip('(').rstrip(')').split('],')[0] + ']', body.strip().rstrip(')').split('],', 1)[1] if '],' in body else '[]'
        parse = lambda t: [int(x.replace('%nat', '')) for x in t.strip().strip('[]').split(';') if x.strip()]
        fd, fl_ = parse(a), parse(b)
        fails = []; libm = 0
        for i in fd:
            p, q, dd, eps, c = dist[i]
            import decimal
            ref = reference_distance(p, q)
            if ref > 0 and abs(decimal.Decimal(dd) - ref) <= decimal.Decimal(math.ulp(dd)) * 2 and c == (dd <= eps):
                # within two units in the last place of the true distance and consistent with its own `<=`:
                # math.pow is libm's pow, which is not specified to round x^2 correctly (the model squares by x*x)
                libm += 1; continue
            fails.append({'kind': 'distance', 'p': [float(x).hex() for x in p], 'q': [float(x).hex() for x in q], 'impl_distance': dd.hex(),
                          'eps': float(eps).hex(), 'impl_close': c, 'python_types': sorted({type(x).__name__ for x in p + q}),
                          'not_euclidean': far_from_euclidean(p, q, dd)})
        fails += list(RAISED)
        for i in fl_:
            nr, nc, h, w, n, x, y = lat[i]
            fails.append({'kind': 'lattice', 'rows': nr, 'cols': nc, 'h': h.hex(), 'w': w.hex(), 'n': n, 'impl_x': x.hex(), 'impl_y': y.hex()})
        kinds = {}
        for i, c in enumerate(dist):
            kinds[i % 7] = kinds.get(i % 7, 0) + 1
        stats = {'distance_cases': len(dist), 'lattice_cases': len(lat), 'ties_at_eps': sum(1 for c in dist if c[2] == c[3]),
                 'coordinate_kinds': 'integers, decimals, uniform, zeros/subnormals/tiny, wide exponents, ldexp, Python ints up to 2^45', 'differing': len(fails), 'libm_rounding_differences_not_counted': libm}
        if keep and fails:
            shutil.copy(path, keep)
        return stats, fails
    finally:
        shutil.rmtree(d, ignore_errors=True)

if __name__ == '__main__':
    st, fails = run(int(sys.argv[1]) if len(sys.argv) > 1 else 0, 1500, 150)
    print(st); print(fails[:5])
