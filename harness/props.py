"""props.py -- per-property workloads (what is enumerated / generated, with its oracle checks
interleaved) and the evidence record."""
import os, json, hashlib, glob, itertools, random
from harness import gen
from harness.impl import tok, list_s

VERIF = os.path.dirname(os.path.dirname(os.path.abspath(__file__)))
STATEMENTS = {}
for _l in open(os.path.join(VERIF, 'properties.jsonl')):
    _p = json.loads(_l); STATEMENTS[_p['id']] = _p['statement']

REG = {}
def prop(pid):
    def deco(cls):
        cls.pid = pid; cls.statement = STATEMENTS[pid]; REG[pid] = cls(); return cls
    return deco
TESTED_ONLY = {
 'C01': ['the vertex-set reading (basis of exactly k+1 points, no two simplices sharing a basis) is proved for every history of in-contract operations (points, add by basis, deletions, restrict, renames) and for flag / Vietoris-Rips results; after add by faces with caller-supplied faces, bulk add under a renaming: proved only (subdivide, compose, bulk add without renaming, copy into a target: proved) for complexes on <= 4 points (kernel sweep); beyond that by the wf oracle after every step of every history. maxOrder = largest populated order is proved for every history of public operations'],
 'C02': ['subdivide beyond 4 points; bulk add under a renaming; which simplex receives the attributes given to addSimplexWithBasis (oracle c02-pre/post); the vertex-set effects of add by basis, delete, delete by basis and restrict are proved for every complex that meets the vertex-set reading, the attribute frame of additions and deletions for every history'],
 'C03': ['d.d = 0 and boundary() of chains on complexes built out of contract (views oracle after every step); shapes, entries, cofaces = inverse of faces and basis = points of the closure are proved for every history, d.d = 0, boundary() = mod-2 sum and boundary of a boundary = [] for every complex that meets the vertex-set reading'],
 'C04': ['returned names having the Python type they were created with (oracle c04); subsets / supersets / 2^(k+1)-1 members / lookup by basis / lookup by faces / disjoint() are proved for every complex that meets the vertex-set reading, sortedness by order and the exclude_self / reverse variants of closureOf and partOf for every history'],
 'C05': ['continuation after a rejected call for requests with generated names / fresh dictionaries (twin-history oracle, up to generated names); atomicity of addSimplexWithBasis / relabel beyond the cases proved; a classification-complete invalid <=> rejected'],
 'C06': ["that decoding / deleting / re-inserting yields the same family in a concrete run (oracle c06-inv); the rank formula, orders above the maximum, Euler-Poincare, independence of names, betti 0 = number of connected components, and that the Betti numbers depend only on the family of vertex sets (same family => same Betti numbers; a copy has its source's) are proved"],
 'C07': ['nothing of the statement is left to testing alone: shape and rank of the normal form, count, cycles (on the matrix and through boundary()) and independence are proved on the model; the oracle c07 ties them to the code'],
 'C08': ['that the *code* does not write through numpy views or shared dictionaries (before/after oracle on every call); in the model, that queries leave the world, that constructors bind only their result and write no dictionary that existed before (every constructor, at the level of exec), and structure / ownership / contents of deepcopy are proved'],
 'C09': ['attribute contents of Filtration.copy; follow-up mutation scripts on either side (oracles fresh, same-content, unchanged, deepcopy-filt); names / orders / faces / attribute values of copy(), that copy() never fails, and freshness of copy / deepcopy / decode / flagComplex / vietorisRipsComplex / compose / Filtration.copy results, and names / faces / birth indices of Filtration.copy are proved; contents of flag / VR results are C11 / C12'],
 'C10': ['nothing of the statement is left to testing alone: the six operators, the order laws, copy == source, delete => strictly smaller and differ => never equal are proved on the model; the oracle c10 ties them to the code on mutated copies'],
 'C11': ['attributes of K in the flag complex; that a concrete sequence "flag complex, add edges, grow" meets the hypotheses of the grow = rebuild theorem is tested (oracles c11, samefam); flag complex = clique complex in both directions, idempotence, soundness of grow, grow = rebuild (for new simplices without other cofaces on a complex that is flag-complete apart from them) are proved for every complex that meets the vertex-set reading'],
 'C12': ['which pairs are close: the binary64 test distance <= eps is compared bit for bit with the code on every run and handed to the model as a list; its monotonicity in eps on doubles is proved (FloatAxioms.leb_spec); symmetry of the distance on doubles is not (oracle c12 with its own metric, subfam). The family for every set of close pairs, monotonicity in the set of pairs, no pair => just the points, all pairs => full simplex are proved'],
 'C13': ['deletion of the whole star across indices, complexes() as a whole, addSimplexWithBasis and copy() on a filtration (shadow-log oracle c13); monotone views, births, views closed under faces, closed snapshots and the indices() / simplicesAddedAtIndex bookkeeping are proved for every history'],
 'C14': ['Betti numbers of the index-aware queries against the snapshot (oracle c14 per query; membership / order / faces of visible simplices, the listings per order and as a whole, the total count, the per-order counts and the Euler characteristic are proved for every filtration history); setMinimumIndex / setMaximumIndex'],
 'C15': ["nothing beyond the tie to the code (oracle c15-pre/post); names-only, structure carried, Betti invariance, the renaming being the user's (m.get(s, s) for a dict), the returned mapping listing exactly the changed names, the attribute dictionaries following the names, the structure and the attribute values of a bulk add under a renaming, relabelDisjointFrom (no shared name left, only collisions renamed), and the at-most-once call are proved"],
 'C16': ['target complexes (oracle c16); result = union, accepted => compatible and compatible => accepted (for complexes that meet the vertex-set reading), and the attribute values of the result (merge = update with the second operand, new cells only) are proved'],
 'C17': ['the JSON text layer (json.dumps / loads, files), name types, nested / unicode attribute values, wrapping in other JSON, filtrations (oracle c17); the structural round trip and acceptance of every encoding by the decoder are proved at the level of the encoded records'],
 'C18': ['Betti numbers beyond k = 6; the lattice beyond 6 x 6; requested name / attributes of the top simplex on non-empty targets (oracle c18); k_simplex / k_void in vertex sets with the frame clause and their binomial counts are proved for every k and every target that meets the vertex-set reading, k_skeleton / ring (what they add, and the frame) for every k / n and every target'],
 'C19': ['input unchanged, complexes built out of contract (oracle c19); the level-set and simplex-wise formulas with the default value additivity over disjoint unions and over the composition of name-disjoint complexes are proved for every complex that meets the vertex-set reading, Euler characteristic = alternating Betti sum for every history'],
 'C20': ['positionsOf / len / in against the complex (oracle c20); Euclidean distance and lattice positions on arbitrary doubles: the binary64 model is compared bit for bit with the code on every run, not proved about real numbers'],
}

def get(pid):
    P = REG[pid]
    P.tested_only = TESTED_ONLY.get(pid, [])
    return P

def corpus(pid):
    """minimised past failures and directed scripts: run first"""
    out = []
    for f in sorted(glob.glob(os.path.join(VERIF, 'corpus', pid, '*.script'))):
        out.append([l.rstrip('\n') for l in open(f) if l.strip() and not l.startswith('#')])
    return out

# ---- name-type agnosticism: the same script, run by the implementation on names (and filtration
# indices) of unusual Python types in bijection with the script's plain names (impl.py, exotic mode);
# outputs are translated back, so the model's run and every oracle are those of the plain script
_NO_EXOTIC = ('subdiv', 'prefix', 'json', 'wjson', 'rjson', 'asjson', 'lattice', 'relabeldisj')   # these build names from str(name)
def exotic_variants(pid, scripts, rnd, share=0.12, cap=40):
    if pid in ('C17',):            # JSON is about str / int names
        return [], {}
    out = []; stats = {}
    for sc in scripts:
        if len(out) >= cap or rnd.random() >= share:
            continue
        toks = set(t for l in sc for t in l.split()[:4])
        if any(w in toks for w in _NO_EXOTIC) or any(l.startswith('exotic') for l in sc):
            continue
        filt = any(l.split()[0] in ('newf', 'setindex') or (l.startswith('! ') and 'newf' in l) for l in sc if l.split())
        mode = rnd.choice(['frozenset', 'obj', 'bytes'])
        imode = rnd.choice(['-', 'tuple', 'fraction']) if filt else '-'
        out.append(['exotic %s %s' % (mode, imode)] + list(sc))
        k = 'exotic_%s_%s' % (mode, imode); stats[k] = stats.get(k, 0) + 1
    return out, stats

# ---- two objects alive at once: two scripts of a workload run in ONE world, their units taken alternately
# (the second script's variables renamed apart), so that whatever the library shares between instances --
# a class-level cache, a module-level buffer, a default argument object -- is used by both in turn
_CREATORS = {'new': [1], 'newf': [1], 'copy': [1], 'deepcopy': [1], 'compose': [1], 'flag': [1], 'json': [1], 'snapf': [1],
             'vr': [1], 'emb': [1], 'embm': [1], 'embp': [1], 'lattice': [1], 'complexes': [2], 'nextc': [1], 'iter': [1], 'gen': [2],
             'sync': [1], 'nextof': [1]}
import re as _re
def _script_vars(sc):
    V = set()
    for l in sc:
        t = l.split()
        while t and t[0] in ('!',):
            t = t[1:]
        if not t: continue
        if t[0] == 'both' and len(t) > 3:
            V.update([t[1], t[2]]); continue
        for pos in _CREATORS.get(t[0], []):
            if len(t) > pos: V.add(t[pos])
        if t[0] in ('add', 'addb', 'del', 'delb', 'dels', 'restrict', 'subdiv', 'relabel', 'relabel1', 'q', 'snap', 'setattr', 'setindex',
                    'next', 'prev', 'min', 'max', 'grow', 'ensure', 'pos', 'getpos', 'clear', 'len', 'positions') and len(t) > 1:
            V.add(t[1])
        if t[0] in ('addfrom', 'copyinto', 'composeinto', 'relabeldisj', 'snapinto') and len(t) > 2:
            V.update(t[1:3])
        if t[0] == 'compose' and len(t) > 3: V.update(t[2:4])
        if t[0] in ('copy', 'deepcopy', 'flag', 'json', 'snapf', 'emb', 'embm', 'embp', 'vr') and len(t) > 2: V.add(t[2])
    return V

def _units(sc):
    units = []; cur = []
    attach_next = False
    for l in sc:
        t = l.split()
        is_pre = len(t) > 1 and t[0] == 'check' and (t[1].endswith('-pre') or t[1].startswith('save') or t[1].endswith('-begin'))
        is_follow = t and (t[0] in ('snap', 'ids') or (t[0] == 'check' and not is_pre))
        if l == 'echo --':
            if cur: units.append(cur)
            cur = [l]; attach_next = False; continue
        if is_pre:
            if cur and not attach_next:
                units.append(cur); cur = []
            cur.append(l); attach_next = True; continue
        if is_follow or attach_next:
            cur.append(l); attach_next = False if not is_pre else True
            continue
        if cur: units.append(cur)
        cur = [l]
    if cur: units.append(cur)
    return units

def interleaved_variants(pid, scripts, rnd, cap=14):
    ok = [sc for sc in scripts if sc and not sc[0].startswith('exotic') and not any(('save-all' in l) or l.startswith('reset') or l.startswith('#') for l in sc)]
    out = []; stats = {'pairs': 0}
    rnd_ = rnd
    tries = 0
    while len(out) < cap and tries < cap * 4 and len(ok) >= 2:
        tries += 1
        A, B = rnd_.sample(ok, 2)
        if len(A) + len(B) > 400: continue
        VB = {_re.sub(r'\d+$', '', v) for v in _script_vars(B)}        # base names: `complexes f p` binds p0, p1, ...
        if 's' in VB or 'i' in VB or '' in VB or not VB or any(not _re.match(r'^[a-z][a-z]?[a-z]?[a-z]?\d*$', v) for v in VB):
            continue
        pat = _re.compile(r'^(%s)(\d*)$' % '|'.join(sorted(map(_re.escape, VB), key=len, reverse=True)))
        def ren(tok_):
            m = pat.match(tok_)
            return (m.group(1) + 'Z' + m.group(2)) if m else tok_
        def ren_line(l):
            t = l.split(' ')
            keep = {1} if t and t[0] == 'check' else set()      # the oracle's name is not a variable
            return ' '.join(x if i in keep else ren(x) for i, x in enumerate(t))
        B2 = [ren_line(l) for l in B]
        ua, ub = _units(A), _units(B2)
        def quiet_tail(us):
            # the trailing units that only look (queries, snapshots, oracles)
            k = len(us)
            while k > 0 and all(l.split()[0] in ('q', 'check', 'snap', 'echo', 'ids', 'sync') for l in us[k - 1] if l.split()):
                k -= 1
            return us[:k], us[k:]
        merged = []
        if rnd_.random() < 0.5:
            # phased: both built first, then the trailing queries of the two alternate with no mutation in between
            (ha, ta), (hb, tb) = quiet_tail(ua), quiet_tail(ub)
            for u in ha + hb: merged += u
            ua, ub = ta, tb
            stats['phased'] = stats.get('phased', 0) + 1
        i = j = 0
        while i < len(ua) or j < len(ub):
            take_a = j >= len(ub) or (i < len(ua) and rnd_.random() < 0.5)
            if take_a:
                merged += ua[i]; i += 1
            else:
                merged += ub[j]; j += 1
        out.append(merged); stats['pairs'] += 1
    return out, stats

# ---- a deep copy takes over: a script is cut in the middle, the complex (or filtration) it works on is deep-copied, and
# the rest of the script runs on the deep copy while the original stays as it was at the cut.  Whatever a deep copy still
# shares with its source -- a back-pointer, a bound method of a table, the tables of a subclass -- then answers for the
# wrong object as soon as the two differ; the model's deep copy shares nothing.
def deepcopy_variants(pid, scripts, rnd, cap=10):
    out = []; stats = {'variants': 0}
    cand = [sc for sc in scripts if sc and not sc[0].startswith('exotic') and len(sc) < 300
            and not any(l.split()[0] in ('emb', 'embm', 'embp', 'reset', 'iter') or 'save-all' in l or l.startswith('#') for l in sc if l.split())]
    rnd.shuffle(cand)
    for sc in cand:
        if len(out) >= cap: break
        bare = lambda l: [x for x in l.split() if x != '!']
        first = next((bare(l) for l in sc if bare(l) and bare(l)[0] in ('new', 'newf')), None)
        if first is None or len(first) < 2: continue
        v = first[1]
        if not _re.match(r'^[a-z]$', v): continue
        us = _units(sc)
        if len(us) < 6: continue
        k = rnd.randint(3, len(us) - 2)
        head = [l for u in us[:k] for l in u]; tail = [l for u in us[k:] for l in u]
        if not any(bare(l) and bare(l)[0] in ('new', 'newf') and bare(l)[1] == v for l in head): continue
        if any(bare(l) and bare(l)[0] in ('new', 'newf') and len(bare(l)) > 1 and bare(l)[1] == v for l in tail): continue
        # a script whose build-up the model does not run (`! ...` lines, the state handed over by `sync`): the deep copy is
        # taken on the implementation side too, and the later `sync` hands over the deep copy's state
        implonly = all(l.startswith('! ') or l.startswith('echo') or not l.strip() for l in head)
        # a variable the model never saw created (its `new` is an implementation-only step inside a mixed script): leave it
        if not implonly and any(l.startswith('! ') and bare(l) and bare(l)[0] in ('new', 'newf') and bare(l)[1] == v for l in head): continue
        if not implonly and any(bare(l) and bare(l)[0] == 'sync' and len(bare(l)) > 1 and bare(l)[1] == v for l in tail): continue
        d = v + 'D'
        def ren_line(l):
            t = l.split(' ')
            keep = {1} if t and t[0] == 'check' else set()
            return ' '.join(x if (i in keep or x != v) else d for i, x in enumerate(t))
        out.append(head + [('! ' if implonly else '') + 'deepcopy %s %s' % (d, v)] + [ren_line(l) for l in tail])
        stats['variants'] += 1
    return out, stats

def merge_stats(total, st):
    for k, v in st.items():
        total[k] = total.get(k, 0) + v

class Prop:
    exhaustive = False
    proved = []; tested_only = []
    note = ''
    def workload(self, tier, rnd):
        raise NotImplementedError

# ---------------------------------------------------------------- shared builders
def build_lines(var, cx, names=None, route='basis', rnd=None):
    """script lines building the complex cx (a list of vertex-set tuples over ints 0..n-1) in `var`.
    names: point -> name (default ints 1..n); simplex names tied to bases when route == 'faces'."""
    nm = names or {}
    pname = lambda p: nm.get(p, p + 1)
    sname = lambda s: pname(s[0]) if len(s) == 1 else nm.get(s, int(''.join(str(p + 1) for p in s)))
    lines = ['new ' + var]
    pts = [s for s in cx if len(s) == 1]
    for s in pts:
        lines.append('add %s [ ] %s -' % (var, tok(pname(s[0]))))
    rest = [s for s in cx if len(s) > 1]
    if route == 'faces':
        order = list(rest)
        if rnd is not None:
            # any order that lists faces before cofaces
            by = {}
            for s in rest: by.setdefault(len(s), []).append(s)
            order = []
            for k in sorted(by):
                l = by[k]; rnd.shuffle(l); order += l
        for s in order:
            fs = [sname(f) for f in itertools.combinations(s, len(s) - 1)]
            lines.append('add %s %s %s -' % (var, list_s(fs), tok(sname(s))))
    else:
        # maximal simplices by basis (the library creates the missing faces with its own names)
        S = set(cx)
        maximal = [s for s in rest if not any(set(s) < set(t) for t in S)]
        if rnd is not None:
            rnd.shuffle(maximal)
        for s in maximal:
            lines.append('addb %s %s - -' % (var, list_s([pname(p) for p in s])))
    return lines

_CX_CACHE = {}
def complexes(n):
    if n not in _CX_CACHE:
        _CX_CACHE[n] = gen.all_complexes(n)
    return _CX_CACHE[n]

NAME_SCHEMES = {
    'int': lambda n: {},
    'str': lambda n: {p: 'abcdefgh'[p] for p in range(n)},
    'tup': lambda n: {p: (p, 'v') for p in range(n)},
    'mix': lambda n: {0: 1, 1: 'b', 2: (3,), 3: 0.5, 4: '0d0'},
}

# ================================================================ C01 / C03 / C05: histories
def history_workload(rnd, n, steps, after, before=(), bad=0.2, pools=('mix', 'int', 'str', 'tup', 'flt'), ops=None, pad_every=7, quiet_every=3):
    scripts = []; stats = {}
    for i in range(n):
        pool = pools[i % len(pools)]
        pad = 12 if (pad_every and i % pad_every == pad_every - 1) else 0
        quiet = 0.35 if (quiet_every and i % quiet_every == quiet_every - 1) else 0.0
        lines, st = gen.random_script(rnd, rnd.randint(*steps) if not pad else min(14, rnd.randint(*steps)), pool=pool, bad=bad, after=after, before=before, ops=ops, pad=pad, quiet=quiet)
        scripts.append(lines); merge_stats(stats, st)
    return scripts, stats

@prop('C01')
class C01(Prop):
    proved = []
    def workload(self, tier, rnd):
        n = 160 if tier == 'quick' else 4000
        scripts, stats = history_workload(rnd, n, (8, 30) if tier == 'quick' else (10, 45), after=['check wf a'])
        return scripts, {'op_mix': stats, 'generator': 'random contract-respecting histories incl. rejected calls, 5 name universes'}

@prop('C03')
class C03(Prop):
    def workload(self, tier, rnd):
        n = 120 if tier == 'quick' else 3000
        scripts, stats = history_workload(rnd, n, (8, 28) if tier == 'quick' else (10, 40), after=['check views a {seed}'],
                                          ops=dict(point=3, faces=4, basis=4, delete=4, restrict=1.5, subdiv=0.7, relabel1=1,
                                                   relabel=0.7, addfrom=0.5, delb=0.5, dels=0.5, dupfaces=0.7, dupbasis=0.4))
        return scripts, {'op_mix': stats, 'generator': 'random histories biased to deletions (points, non-last simplices, whole orders) and re-adds'}

@prop('C05')
class C05(Prop):
    def workload(self, tier, rnd):
        n = 120 if tier == 'quick' else 3000
        scripts = []; stats = {}
        for i in range(n):
            pool = ('mixplain', 'int', 'strplain', 'tup')[i % 4]
            g = gen.Gen(rnd, pool=pool, bad=0.45, ops=dict(point=3, faces=3, basis=4, delete=2, restrict=1, subdiv=1, relabel1=1, relabel=2, addfrom=1, delb=1.5, dels=0.5, ensure=0.3, dupfaces=1.4, dupbasis=1, copyinto=1, weird=1.5), before=['check c05-pre a {line}'], after=['check c05-post a'], twin='b')
            for _ in range(rnd.randint(8, 26) if tier == 'quick' else rnd.randint(10, 40)):
                g.step()
            g.lines.append('check twin a b')
            scripts.append(g.lines); merge_stats(stats, g.stats)
        return scripts, {'op_mix': stats, 'generator': 'random histories with 45% documented-invalid requests; a twin complex receives only the accepted calls'}


# ================================================================ evidence
def evidence(pid, tier, seed, P, pr, scripts, impl_res, diffs, oracle_fails, known_hit, meta, nviol, wall, n_corpus=0):
    evals = 0; distinct = set(); rejected = 0; kinds = {}; name_types = {}
    checks = 0
    for (ann, outs) in impl_res:
        for l, o in zip(ann, outs):
            if l.startswith('echo check'):
                checks += 1; continue
            if l.startswith('echo') and not l.startswith('echo @sync'):
                continue
            evals += 1
            kw = l.split()[0]
            kinds[kw] = kinds.get(kw, 0) + 1
            if o and o[0].startswith('err'):
                rejected += 1
            nontrivial = (len(o) > 6) or (o and (o[0].startswith('err') or len(o[0]) > 6))
            if nontrivial:
                distinct.add(hashlib.sha1((l + '\0' + '\n'.join(o)).encode()).digest())
            for t in l.split():
                if t[0] in 'isf(' and len(t) > 1 and kw != 'q':
                    name_types[t[0]] = name_types.get(t[0], 0) + 1
    lens = sorted(len(s) for s in scripts)
    samples = [s[:40] for s in (scripts[n_corpus:n_corpus + 2] + scripts[-1:])] if scripts else []
    cov = {
        'obligations': pr['obligations'], 'discharged': pr['discharged'], 'checker_cmd': pr['checker_cmd'],
        'trusted_base': [
            'Coq 8.16.1 kernel (coqc; vm_compute where a theorem says so; no native_compute)',
            'axioms reported by Print Assumptions for this property: ' + (', '.join(pr['axioms']) or 'none (closed under the global context)'),
            'hand-written Gallina model coq/*.v of /repo/simplicial (modelled, not verified: CPython dict/set/list, numpy, copy, json text layer)',
            'correspondence check: extraction (ExtrOcamlBasic, ExtrOcamlString; no Extract Constant), ocamlfind ocamlopt, ocaml/driver.ml, harness/impl.py, canonicalisation rules of DESIGN.md 2.3',
            'oracles harness/oracles.py (used to find the replay and for the parts listed under tested_only)'],
        'theorems': pr['theorems'], 'proof_problems': pr['problems'],
        'proved': [t for t in pr['theorems'] if not t.endswith('_refuted')],
        'refuted': pr.get('refuted', []), 'partial_theorems': pr.get('partial', []),
        'tested_only': P.tested_only,
        'traces_validated_against_impl': len(scripts),
        'evaluations': evals, 'oracle_checks': checks,
        'distinct_nontrivial': len(distinct),
        'rule': 'every script is executed step by step on /repo and on the extracted model and the canonical outputs compared; '
                'a compared step is non-trivial when it is rejected, returns a non-empty answer, or yields a snapshot with at least 2 simplices; '
                'distinct = distinct SHA-1 of (command, implementation output)',
        'samples': samples,
        'exhaustive': bool(meta.get('exhaustive', False)),
        'correspondence_diffs': len(diffs), 'oracle_failures': len(oracle_fails),
        'known_findings_hit': known_hit,
        'input_distribution': {'commands': kinds, 'rejected_calls': rejected, 'name_tokens_by_type': name_types,
                               'script_length_min_med_max': [lens[0], lens[len(lens) // 2], lens[-1]] if lens else [],
                               'corpus_scripts': n_corpus, **{k: v for k, v in meta.items() if k != 'exhaustive'}},
    }
    if 'coqchk' in pr:
        cov['coqchk_output_tail'] = pr['coqchk']
    return {'property_id': pid, 'tier': tier, 'seed': seed, 'level': 'proof', 'coverage': cov,
            'assumptions': ['the tie between model and code is differential execution on the workload above (sampling, not a proof of refinement)',
                            'user callbacks are functions of their arguments (and call number)', P.note or 'see DESIGN.md section 5 for the reading of the statement'],
            'wall_s': round(wall, 2), 'violations': nviol}

from harness import props2, props3      # noqa: E402  (the remaining workloads register themselves on import)
