"""props3.py -- filtration histories and the workloads of C13 / C14."""
import itertools, random
from harness import gen, impl
from harness.impl import tok, list_s, idx_tok
from harness.props import prop, Prop, merge_stats
from harness.oracles4 import QUERIES

INDEX_SET = [-6, 0, 2, 8]        # -1.5, 0, 0.5, 2 in quarter units: negative, fractional, non-consecutive
# indices far from 0 and close together (timestamps a quarter apart; large integers differing by 1):
# distinct numbers whatever their magnitude
BIG_INDEX_SETS = [[6800000000, 6800000001, 6800000002, 6800000005],
                  [4 * 10 ** 15, 4 * 10 ** 15 + 4, 4 * 10 ** 15 + 8, 4 * 10 ** 15 + 20],
                  [-6800000002, -6800000001, 0, 6800000001]]

def filtration_history(rnd, steps, checks=True, attrs=False, nav=True, pool=None, pad=False, index_set=None):
    """a history over one filtration f, driven by a live implementation run so that requests are
    in contract: faces (and every existing subset of a basis) visible at the current index"""
    w = impl.ImplWorld()
    pool = pool or rnd.choice([[1, 2, 3, 4, 5], ['a', 'b', 'c', 'd'], [1, 'b', (3,), 4, 'e']])
    lines = []; stats = {}
    INDEX_SET = index_set or (rnd.choice(BIG_INDEX_SETS) if rnd.random() < 0.2 else globals()['INDEX_SET'])
    if INDEX_SET[0] != -6 or INDEX_SET[-1] != 8:
        stats['big_indices'] = 1
    def emit(l, bracket=True):
        if checks and bracket:
            lines.append('echo --'); lines.append('check c13-pre f ' + l)
        lines.append(l); a, o = w.exec(l)
        kw = l.split()[0]; stats[kw] = stats.get(kw, 0) + 1
        if o and o[0].startswith('err'): stats['rejected'] = stats.get('rejected', 0) + 1
        if checks and bracket:
            lines.append('check c13-post f'); lines.append('snap f')
        return o
    i0 = rnd.choice(INDEX_SET)
    emit('newf f q%d' % i0, bracket=False)
    if checks:
        lines.append('check c13-begin f q%d' % i0)
    w.exec('check c13-begin f q%d' % i0)
    if pad:
        # a large start: 10 points (int and str names) at the first index visited, 30 edges and a few
        # triangles at one or two later ones -- 40+ simplices visible at the top index
        pts_ = [900 + i if i % 2 == 0 else 'P%d' % i for i in range(10)]
        for p_ in pts_:
            emit('add f [ ] %s -' % tok(p_))
        later = sorted(x for x in INDEX_SET if x >= i0)
        k_ = 0
        for a_ in range(8):
            for b_ in range(a_ + 1, 8):
                k_ += 1
                if k_ in (1, 16) and len(later) > 1:
                    later.pop(0); emit('setindex f q%d' % later[0])
                nm_ = tok(950 + k_) if k_ % 3 == 0 else (tok('E%d' % k_) if k_ % 3 == 1 else '-')
                emit('add f [ %s %s ] %s -' % (tok(pts_[a_]), tok(pts_[b_]), nm_))
        for tri in [(0, 1, 2), (0, 1, 3), (4, 5, 6)]:
            emit('addb f %s - -' % list_s([pts_[x] for x in tri]))
        stats['padded'] = 1
    for _ in range(steps):
      try:
            f = w.vars['f']
            r = rnd.random()
            vis = f.simplices(); pts = [s for s in vis if f.orderOf(s) == 0]
            alln = list(impl.SimplicialComplex.simplices(f))
            attr = ('{ sk i%d }' % rnd.randint(0, 5)) if attrs and rnd.random() < 0.5 else '-'
            if r < 0.22:
                emit('setindex f q%d' % rnd.choice(INDEX_SET))
            elif r < 0.42:
                free = [x for x in pool if not f.containsSimplexAtSomeIndex(x)]
                n = rnd.choice(free) if free and rnd.random() < 0.85 else (rnd.choice(alln) if alln and rnd.random() < 0.5 else None)
                emit('add f [ ] %s %s' % ('-' if n is None else tok(n), attr))
            elif r < 0.55 and len(pts) >= 2:
                k = rnd.randint(1, min(2, len(pts) - 1))
                V = rnd.sample(pts, k + 1)
                fs = [f.simplexWithBasis([x for x in V if x is not y]) for y in V]
                if all(x is not None for x in fs) and f.simplexWithBasis(V) is None and all(x in f for x in fs):
                    emit('add f %s - %s' % (list_s(fs), attr))
                else:
                    emit('addb f %s - %s' % (list_s(V), attr)) if _addb_ok(f, V) else None
            elif r < 0.72 and (pts or pool):
                m = rnd.randint(2, 3)
                cand = list(pts) + [x for x in pool if not f.containsSimplexAtSomeIndex(x)]
                if len(cand) >= m:
                    V = rnd.sample(cand, m)
                    if _addb_ok(f, V):
                        emit('addb f %s - %s' % (list_s(V), attr))
            elif r < 0.86 and alln:
                emit('del f %s' % tok(rnd.choice(alln if rnd.random() < 0.7 else vis or alln)))
            elif r < 0.9 and nav:
                if f.getIndex() in f.indices():
                    emit(rnd.choice(['next f', 'prev f', 'min f', 'max f']))
            elif r < 0.94:
                emit('snapf s f', bracket=False)
                if checks: lines.append('check wf s')
            else:
                emit('complexes f p', bracket=False)
      except Exception:
        # a read-only query raised while the next request was being chosen: stop extending this
        # history (running it shows the broken state); keep what there is
        stats['generator_stopped_by_exception'] = stats.get('generator_stopped_by_exception', 0) + 1
        break
    return lines, stats

def stepped_iteration(rnd, lines, mode):
    """continue a filtration history with a step-by-step iteration over f.complexes(): between two
    next() calls the caller moves the current index and edits complexes the iterator already handed
    out (the filtration's simplices are left alone: iterating over a collection that changes is
    outside the iterator's contract).  mode 'c08': every step bracketed by save-all/unchanged-all;
    mode 'c09': every complex handed out is compared with a snapshot taken at its index."""
    w = impl.ImplWorld()
    for l in lines:
        w.exec(l)
    f = w.vars['f']; inds = list(f.indices())
    out = []
    def emit(l):
        out.append(l); w.exec(l)
    emit('! iter it f')
    for k, ind in enumerate(inds):
        if rnd.random() < 0.6:
            emit(rnd.choice(['setindex f %s' % idx_tok(rnd.choice(inds)), 'next f', 'prev f', 'min f', 'max f']))
        if k > 0 and rnd.random() < 0.7:
            v = 'p%d' % rnd.randrange(k); c = w.vars.get(v)
            if c is None:
                return out            # an earlier step failed on the implementation: running the script shows it
            ss = c.simplices()
            r = rnd.random()
            if r < 0.4 or not ss:
                emit('add %s [ ] sLEAK%d { sleak i%d }' % (v, k, k))
            elif r < 0.7:
                emit('setattr %s %s sleak i%d' % (v, tok(rnd.choice(ss)), k))
            else:
                emit('del %s %s' % (v, tok(rnd.choice(ss))))
        if mode == 'c08':
            emit('check save-all'); emit('nextc p%d it' % k); emit('check unchanged-all')
        else:
            emit('nextc p%d it' % k); emit('snap p%d' % k); emit('check fresh p%d complexes' % k)
            emit('! copy keep f ?'); emit('! setindex keep %s' % idx_tok(ind)); emit('! snapf want keep')
            emit('check same-content p%d want complexes' % k)
    return out

def _addb_ok(f, V):
    """in contract: every existing simplex on a subset of V is visible now, and V itself is new"""
    S = impl.SimplicialComplex
    names = {frozenset(map(tok, f.basisOf(s))): s for s in S.simplices(f)}
    Vt = frozenset(map(tok, V))
    if Vt in names:
        return False
    for U, s in names.items():
        if U <= Vt and s not in f:
            return False
    return True

@prop('C13')
class C13(Prop):
    def workload(self, tier, rnd):
        scripts = []; stats = {}
        n = 90 if tier == 'quick' else 2500
        for i in range(n):
            big = (i % 9 == 8)
            lines, st = filtration_history(rnd, (rnd.randint(6, 18) if tier == 'quick' else rnd.randint(8, 30)) if not big else rnd.randint(4, 9), pad=big)
            if i % 4 == 3 or big:
                lines = lines + stepped_iteration(rnd, lines, 'c09')
            if i % 3 == 1:
                lines = lines + ['check c13-lockstep f', 'q f getindex']
                # a second filtration with another index set, iterated in step with the first
                lines = lines + ['! copy gg f ?', '! setindex gg %s' % idx_tok(rnd.choice([0.25, 1, 3, -2])), '! add gg [ ] sGG -',
                                 'check lockstep2 f gg', 'q f getindex', 'q f indices 0']
            if i % 3 == 2:
                # at the end (the model has no bulk deletion on filtrations: implementation and oracle only): the
                # inherited bulk operations at some index -- they too remove whole stars across all indices
                w_ = impl.ImplWorld()
                for l in lines: w_.exec(l)
                f_ = w_.vars.get('f')
                if f_ is not None:
                    alln = list(impl.SimplicialComplex.simplices(f_))
                    pts_ = [x for x in alln if impl.SimplicialComplex.orderOf(f_, x) == 0]
                    if alln and rnd.random() < 0.6:
                        # preferably at an index where the simplex is visible while some coface of it is born later
                        S_ = impl.SimplicialComplex
                        cand = [(S_.cofaces(f_, x), x) for x in alln if S_.orderOf(f_, x) < S_.maxOrder(f_)]
                        cand = [(f_.addedAtIndex(x), max([f_.addedAtIndex(c_) for c_ in cs_]), x) for cs_, x in cand if cs_]
                        cand = [(b_, x) for b_, hi_, x in cand if b_ < hi_]
                        if cand and rnd.random() < 0.8:
                            b_, x_ = rnd.choice(cand)
                            lines = lines + ['! setindex f %s' % idx_tok(b_), 'check c13-begin-index f']
                            ss = [x_] + rnd.sample(alln, min(len(alln), rnd.randint(0, 1)))
                        else:
                            lines = lines + ['! setindex f %s' % idx_tok(rnd.choice(INDEX_SET) / 4), 'check c13-begin-index f']
                            ss = rnd.sample(alln, min(len(alln), rnd.randint(1, 2)))
                        ss = list(dict.fromkeys(ss))
                        cmd = 'dels f %s' % list_s(ss)
                    else:
                        # restriction, where everything is visible (what it means below the maximum index is not stated)
                        lines = lines + ['! max f', 'check c13-begin-index f']
                        cmd = 'restrict f %s' % list_s(rnd.sample(pts_, rnd.randint(0, len(pts_))) if pts_ else [])
                    lines = lines + ['check c13-pre f ' + cmd, '! ' + cmd, 'check c13-post f']
            scripts.append(lines); merge_stats(stats, st)
            if big:
                scripts.append(['exotic %s %s' % (rnd.choice(['-', 'obj', 'bytes']), rnd.choice(['tuple', 'fraction']))] + lines)
        return scripts, {'op_mix': stats, 'generator': 'random histories over the index set {-1.5, 0, 0.5, 2} visited in any order: adds by faces and by basis, deletes (also of simplices not visible now), re-adds at emptied indices, snapshots and iterations in between'}

@prop('C14')
class C14(Prop):
    def workload(self, tier, rnd):
        scripts = []; stats = {}
        n = 70 if tier == 'quick' else 2000
        for i in range(n):
            big = (i % 9 == 8)
            lines, st = filtration_history(rnd, (rnd.randint(6, 16) if tier == 'quick' else rnd.randint(8, 28)) if not big else rnd.randint(4, 9), checks=False, pad=big)
            merge_stats(stats, st)
            out = []
            k = 0
            for l in lines:
                out.append(l)
                if l.split()[0] in ('add', 'addb', 'del', 'setindex'):
                    out += ['q f indices 0', 'q f getindex']
                    if l.split()[0] == 'del':
                        out.append('check c14-nav f')
                    k += 1
                    if k % 3 == 0:
                        out += ['check c14 f %s' % q for q in QUERIES] + ['snap f', 'q f counts', 'q f total', 'q f euler', 'q f simplices 0']
            out += ['check c14 f %s' % q for q in QUERIES] + ['check c14-nav f', 'snap f', 'q f counts', 'q f euler']
            # stepping through the whole index set, compared with the model
            out += ['min f', 'q f getindex'] + ['next f', 'q f simplices 0', 'q f counts'] * 4 + ['prev f', 'q f getindex'] * 2 + ['max f', 'q f getindex']
            if i % 4 == 1:
                # a bulk add into the filtration that is refused half-way (the second source point is a name the filtration
                # uses, at whatever index): whatever got in before the refusal, the filtration still answers as its snapshot
                # (implementation + oracle: the last thing in the script, the model does not follow)
                w_ = impl.ImplWorld()
                for l in lines: w_.exec(l)
                f_ = w_.vars.get('f')
                alln = list(impl.SimplicialComplex.simplices(f_)) if f_ is not None else []
                if alln:
                    out += ['! new z', '! add z [ ] sFRESHPOINT -', '! add z [ ] %s -' % tok(rnd.choice(alln)), '! addfrom f z -']
                    out += ['check c14 f %s' % q for q in QUERIES] + ['check c14-nav f']
                    out += ['! setindex f %s' % idx_tok(rnd.choice(list(f_.indices()))), 'check c13-begin-index f'] + ['check c14 f %s' % q for q in QUERIES]
            scripts.append(out)
            if big:
                # the same large filtration over an index set of tuples / exact fractions (and unusual name types)
                scripts.append(['exotic %s %s' % (rnd.choice(['-', 'obj', 'frozenset']), rnd.choice(['tuple', 'fraction']))] + out)
        return scripts, {'op_mix': stats, 'generator': 'the filtrations of the C13 workload; every index x every read-only query compared with the snapshot at that index; stepping from every index'}
