"""python3 -m harness.one <script file>: run one script on the implementation and on the model, print both outputs."""
import sys
from harness import run
lines = [l.rstrip('\n') for l in open(sys.argv[1]) if l.strip()]
diffs, impl_res, model_res = run.compare([lines], procs=1)
(a, io), mo = impl_res[0], model_res[0]
for li in range(len(a)):
    x = io[li] if li < len(io) else None; y = mo[li] if li < len(mo) else None
    mark = '  ' if (x == y or a[li].startswith('echo')) else '!!'
    print(mark, a[li]); print('     impl :', x)
    if x != y: print('     model:', y)
print('DIFFS', diffs)
