"""oracles2.py -- oracles for C02, C04, C06, C07, C10 (effects of mutators; closure / star / lookups;
homology; comparison).  See oracles.py for conventions."""
import itertools, random, json, math
from harness import impl
from harness.impl import tok, parse_name, SimplicialComplex, Filtration
from harness.oracles import oracle, family, classify, is_auto, full_obs, vs, has

# ---------------------------------------------------------------- small linear algebra over GF(2)
def gf2_rank(rows):
    """rank of a 0/1 matrix given as a list of int bitmasks"""
    rows = [r for r in rows if r]
    rank = 0
    while rows:
        p = rows.pop()
        if p == 0:
            continue
        rank += 1
        low = p & -p
        rows = [(r ^ p) if (r & low) else r for r in rows]
        rows = [r for r in rows if r]
    return rank

def own_boundary_masks(c):
    """boundary matrices from faces() and the listings only: per order k >= 1 a list (one per
    k-simplex) of bitmasks over the (k-1)-simplices"""
    mx = c.maxOrder()
    per = [c.simplicesOfOrder(k) for k in range(mx + 1)]
    pos = [{tok(s): i for i, s in enumerate(l)} for l in per]
    cols = {}
    for k in range(1, mx + 1):
        cols[k] = []
        for s in per[k]:
            m = 0
            for f in c.faces(s):
                m |= 1 << pos[k - 1][tok(f)]
            cols[k].append(m)
    return per, cols

def own_ranks(c):
    per, cols = own_boundary_masks(c)
    r = {0: 0}
    for k in cols:
        r[k] = gf2_rank(cols[k])
    return per, r

def own_betti(c):
    per, r = own_ranks(c)
    mx = len(per) - 1
    b = {}
    for k in range(mx + 1):
        b[k] = len(per[k]) - r.get(k, 0) - r.get(k + 1, 0)
    return b

def components(c):
    parent = {}
    def find(x):
        while parent[x] != x:
            parent[x] = parent[parent[x]]; x = parent[x]
        return x
    for p in c.simplicesOfOrder(0):
        parent[tok(p)] = tok(p)
    for e in (c.simplicesOfOrder(1) if c.maxOrder() >= 1 else []):
        a, b = [tok(x) for x in c.faces(e)]
        parent[find(a)] = find(b)
    return len({find(x) for x in parent})

# ================================================================ C02
def _record(c):
    rec = {}
    for s in c.simplices():
        rec[tok(s)] = (c.orderOf(s), frozenset(map(tok, c.faces(s))), vs(c, s),
                       json.dumps(c[s], sort_keys=True))
    return rec

def _attr_of_line(w, t):
    """contents of the attr argument token(s) at position in the request"""
    return None

@oracle('c02-pre')
def o_c02_pre(w, args):
    v = args[0]; line = ' '.join(args[1:]); c = w.vars[v]
    st = {'line': line, 'kw': args[1], 'cls': classify(c, line, w), 'rec': _record(c), 'ndicts': len(w.dicts)}
    toks = line.split(); T = impl.Toks(toks[2:])
    kw = args[1]
    if kw in ('del', 'subdiv'):
        s = T.name()
        if has(c, s):
            st['V'] = vs(c, s)
    if kw == 'addfrom':
        src = w.vars.get(toks[2])
        if src is not None:
            st['src'] = [(s, [f for f in src.faces(s)], json.dumps(src[s], sort_keys=True)) for s in src.simplices()]
    w.ostate['c02'] = st
    return None

def _attr_contents(w, st, toks_after):
    """the dict the request passed as attr: '-' -> {}, '#k' -> dicts[k], '{..}' -> the dict created by it"""
    t = toks_after[0]
    if t == '-':
        return {}
    if t[0] == '#':
        return w.dicts[int(t[1:])]
    return w.dicts[st['ndicts']]

@oracle('c02-post')
def o_c02_post(w, args):
    v = args[0]; c = w.vars[v]; st = w.ostate['c02']
    if st['cls'] != 'valid':
        return None
    kw = st['kw']; line = st['line']; out = w.last_out
    if out.startswith('err'):
        return '[%s/valid-request-rejected] `%s` is a valid request but gave %s' % (kw, line, out)
    before = st['rec']; after = _record(c)
    oldsets = {r[2] for r in before.values()}
    toks = line.split(); T = impl.Toks(toks[2:])
    # a library-generated name may be used again after its simplex was deleted: a name counts as
    # removed / added when it is gone / new *or* now stands for another vertex set
    removed = {n for n in before if n not in after or after[n][2] != before[n][2]}
    added = {n for n in after if n not in before or before[n][2] != after[n][2]}
    def frame(except_names=()):
        for n, r in before.items():
            if n in except_names:
                continue
            if n not in after:
                return 'simplex %s disappeared' % n
            if after[n] != r:
                return 'simplex %s changed: %r -> %r' % (n, r, after[n])
        return None
    if kw == 'add':
        fs = T.names(); id = T.optname()
        rest = toks[2 + T.i:]
        want_attr = _attr_contents(w, st, rest)
        ret = out.split()[1]
        if id is not None and ret != tok(id):
            return '[add/wrong-name] asked for %s, got %s' % (tok(id), ret)
        if removed or added != {ret}:
            return '[add/not-exactly-one] `%s` added %s and removed %s' % (line, sorted(added), sorted(removed))
        k, f, b, a = after[ret]
        if f != frozenset(map(tok, fs)) or k != max(len(fs) - 1, 0):
            return '[add/wrong-faces] new simplex %s has order %d faces %s' % (ret, k, sorted(f))
        if json.loads(a) != want_attr:
            return '[add/attr-readback] attributes %s read back as %s' % (want_attr, a)
        m = frame()
        return None if m is None else '[add/frame] ' + m
    if kw == 'addb':
        bs = T.names(); id = T.optname()
        rest = toks[2 + T.i:]
        want_attr = _attr_contents(w, st, rest)
        ret = out.split()[1]
        if id is not None and ret != tok(id):
            return '[addb/wrong-name] asked for %s, got %s' % (tok(id), ret)
        V = frozenset(map(tok, bs))
        want = {frozenset(x) for k in range(1, len(V) + 1) for x in itertools.combinations(sorted(V), k)} - oldsets
        got = {after[n][2] for n in added}
        if removed or got != want or len(added) != len(want):
            return '[addb/wrong-sets] `%s` should add exactly the vertex sets %s; added %s, removed %s' % (
                line, sorted(map(sorted, want)), sorted(map(sorted, got)), sorted(removed))
        if ret not in after or after[ret][2] != V:
            return '[addb/top-simplex] returned %s is not the simplex on %s' % (ret, sorted(V))
        if json.loads(after[ret][3]) != want_attr:
            return '[addb/attr-readback] attributes %s read back as %s' % (want_attr, after[ret][3])
        for n in added:
            if after[n][0] == 0 and json.loads(after[n][3]) != want_attr:
                return '[addb/point-attr] created point %s has attributes %s, not %s' % (n, after[n][3], want_attr)
        m = frame()
        return None if m is None else '[addb/frame] ' + m
    if kw in ('del', 'delb', 'dels', 'restrict'):
        if kw == 'del':
            Vs = [st['V']]
            gone = {n for n, r in before.items() if st['V'] <= r[2]}
        elif kw == 'delb':
            V = frozenset(map(tok, T.names()))
            gone = {n for n, r in before.items() if V <= r[2]}
        elif kw == 'dels':
            gone = set()
            for s in T.names():
                if tok(s) in before and tok(s) not in gone:
                    V = before[tok(s)][2]
                    gone |= {n for n, r in before.items() if V <= r[2]}
        else:
            keep = frozenset(map(tok, T.names()))
            gone = {n for n, r in before.items() if not (r[2] <= keep)}
        if added or removed != gone:
            return '[%s/wrong-sets] `%s` should remove exactly %s; removed %s, added %s' % (
                kw, line, sorted(gone), sorted(removed), sorted(added))
        m = frame(gone)
        return None if m is None else '[%s/frame] ' % kw + m
    if kw == 'subdiv':
        V = st['V']; mid = out.split()[1]
        gone = {n for n, r in before.items() if V <= r[2]}
        want = {frozenset(A) | {mid} for k in range(0, len(V)) for A in itertools.combinations(sorted(V), k)}
        got = {after[n][2] for n in added}
        if removed != gone or got != want or len(added) != len(want):
            return '[subdiv/wrong-sets] `%s`: removed %s (star is %s); added %s, expected %s' % (
                line, sorted(removed), sorted(gone), sorted(map(sorted, got)), sorted(map(sorted, want)))
        if mid in before:
            return '[subdiv/point-not-fresh] the new point %s was already in the complex' % mid
        m = frame(gone)
        return None if m is None else '[subdiv/frame] ' + m
    if kw == 'addfrom':
        src = st.get('src')
        if src is None:
            return None
        ret = out[len('ok '):].strip('[] ').split()
        if len(ret) != len(src):
            return '[addfrom/count] %d source simplices, %d names returned' % (len(src), len(ret))
        f = {tok(s): r for (s, _, _), r in zip(src, ret)}
        if removed or added != set(ret) or len(set(ret)) != len(ret):
            return '[addfrom/wrong-sets] added %s, returned %s, removed %s' % (sorted(added), ret, sorted(removed))
        for (s, fs, a), r in zip(src, ret):
            k, nf, nb, na = after[r]
            if nf != frozenset(f[tok(x)] for x in fs):
                return '[addfrom/faces] %s -> %s has faces %s, expected the images of %s' % (tok(s), r, sorted(nf), sorted(map(tok, fs)))
            if na != a:
                return '[addfrom/attrs] %s -> %s has attributes %s, source has %s' % (tok(s), r, na, a)
        # the renaming asked for
        kind = toks[3]
        if kind == '-':
            bad = [(tok(s), r) for (s, _, _), r in zip(src, ret) if tok(s) != r]
        elif kind == 'map':
            l = impl.Toks(toks[4:]).names(); m = {tok(l[i]): tok(l[i + 1]) for i in range(0, len(l), 2)}
            bad = [(tok(s), r) for (s, _, _), r in zip(src, ret) if m.get(tok(s), tok(s)) != r]
        elif kind == 'tup':
            bad = [(tok(s), r) for (s, _, _), r in zip(src, ret) if tok((s, int(toks[4]))) != r]
        else:
            bad = []
        if bad:
            return '[addfrom/renaming] source simplices inserted under the wrong names: %s' % bad[:3]
        m = frame()
        return None if m is None else '[addfrom/frame] ' + m
    if kw == 'ensure':
        bs = T.names()
        want = {tok(b) for b in bs if tok(b) not in before}
        if removed or added != want:
            return '[ensure/wrong-sets] added %s expected %s' % (sorted(added), sorted(want))
        m = frame()
        return None if m is None else '[ensure/frame] ' + m
    return None

# ================================================================ C04
@oracle('c04')
def o_c04(w, args):
    c = w.vars[args[0]]; rnd = random.Random(int(args[1]) if len(args) > 1 else 0)
    fam = {tok(s): vs(c, s) for s in c.simplices()}
    byname = {tok(s): s for s in c.simplices()}
    order = {tok(s): c.orderOf(s) for s in c.simplices()}
    ss = c.simplices()
    sample = ss if len(ss) <= 14 else rnd.sample(ss, 14)
    if len(ss) > 14 and c.maxOrder() >= 0:
        # deep complexes: the points (whose stars reach furthest up) and a top simplex are always looked at
        pts_ = list(c.simplicesOfOrder(0)); top_ = list(c.simplicesOfOrder(c.maxOrder()))
        seen_ = set(map(tok, sample))
        sample = list(sample) + [x for x in (rnd.sample(pts_, min(3, len(pts_))) + top_[:1]) if tok(x) not in seen_]
    def fmt_check(what, s, got, want, rev, excl):
        gt = [tok(x) for x in got]
        for t in gt:
            if t not in byname:
                return '[%s/foreign-name] %s(%s) returned %s, which is not a simplex of the complex (value or type differs)' % (what, what, tok(s), t)
        if len(set(gt)) != len(gt):
            return '[%s/repeats] %s(%s, reverse=%s, exclude_self=%s) repeats a simplex: %s' % (what, what, tok(s), rev, excl, gt)
        w_ = set(want) - ({tok(s)} if excl else set())
        if set(gt) != w_:
            return '[%s/wrong-set] %s(%s, reverse=%s, exclude_self=%s) = %s, expected %s' % (what, what, tok(s), rev, excl, sorted(gt), sorted(w_))
        os_ = [order[t] for t in gt]
        if os_ != sorted(os_, reverse=rev):
            return '[%s/not-sorted] %s(%s, reverse=%s) orders %s' % (what, what, tok(s), rev, os_)
        return None
    for s in sample:
        V = fam[tok(s)]; k = order[tok(s)]
        clo = {n for n, B in fam.items() if B <= V}
        star = {n for n, B in fam.items() if V <= B}
        if len(clo) != 2 ** (k + 1) - 1:
            return '[closure/count] the closure of %s should have %d members, the complex has %d' % (tok(s), 2 ** (k + 1) - 1, len(clo))
        for rev in (False, True):
            for excl in (False, True):
                m = fmt_check('closureOf', s, c.closureOf(s, reverse=rev, exclude_self=excl), clo, rev, excl)
                if m: return m
                m = fmt_check('partOf', s, c.partOf(s, reverse=rev, exclude_self=excl), star, rev, excl)
                if m: return m
        bl = [byname[p] for p in V]; rnd.shuffle(bl)
        r = c.simplexWithBasis(bl)
        if r is None or tok(r) != tok(s):
            return '[simplexWithBasis/wrong] simplexWithBasis(%s) = %s, expected %s' % (list(map(tok, bl)), None if r is None else tok(r), tok(s))
        if not c.containsSimplexWithBasis(bl):
            return '[containsSimplexWithBasis/wrong] false on the basis of %s' % tok(s)
        if k >= 1:
            fl = list(c.faces(s)); rnd.shuffle(fl)
            r = c.simplexWithFaces(fl)
            if r is None or tok(r) != tok(s):
                return '[simplexWithFaces/wrong] simplexWithFaces(%s) = %s, expected %s' % (list(map(tok, fl)), None if r is None else tok(r), tok(s))
    # lookups that must find nothing
    pts = c.simplicesOfOrder(0) if c.maxOrder() >= 0 else []
    sets = set(fam.values())
    for _ in range(6):
        if len(pts) < 2: break
        m = rnd.randint(2, min(4, len(pts)))
        bs = rnd.sample(pts, m)
        want = frozenset(map(tok, bs)) in sets
        r = c.simplexWithBasis(bs)
        if (r is not None) != want:
            return '[simplexWithBasis/wrong] simplexWithBasis(%s) = %s but such a simplex %s' % (
                list(map(tok, bs)), None if r is None else tok(r), 'exists' if want else 'does not exist')
        if r is not None and fam[tok(r)] != frozenset(map(tok, bs)):
            return '[simplexWithBasis/wrong] simplexWithBasis(%s) returned %s with basis %s' % (list(map(tok, bs)), tok(r), sorted(fam[tok(r)]))
    # a basis naming a point twice: whatever reading of "the simplex with this basis" one takes, a simplex that
    # is returned has exactly the named points, and containsSimplexWithBasis agrees with simplexWithBasis
    for _ in range(4):
        if not pts: break
        p_ = rnd.choice(pts); q_ = rnd.choice(pts)
        bs = rnd.choice([[p_, p_], [p_, p_, q_], [p_, q_, p_], [q_, p_, p_, q_]])
        r = c.simplexWithBasis(bs)
        if r is not None and fam[tok(r)] != frozenset(map(tok, bs)):
            return '[simplexWithBasis/wrong] simplexWithBasis(%s) returned %s with basis %s' % (list(map(tok, bs)), tok(r), sorted(fam[tok(r)]))
        if bool(c.containsSimplexWithBasis(bs)) != (r is not None):
            return '[containsSimplexWithBasis/wrong] containsSimplexWithBasis(%s) disagrees with simplexWithBasis = %s' % (list(map(tok, bs)), None if r is None else tok(r))
    facesets = {frozenset(map(tok, c.faces(s))): tok(s) for s in ss if order[tok(s)] >= 1}
    for k in range(1, c.maxOrder() + 2):
        lower = c.simplicesOfOrder(k - 1)
        if len(lower) < k + 1: continue
        for _ in range(4):
            fs = rnd.sample(lower, k + 1)
            want = facesets.get(frozenset(map(tok, fs)))
            r = c.simplexWithFaces(fs)
            if (None if r is None else tok(r)) != want:
                return '[simplexWithFaces/wrong] simplexWithFaces(%s) = %s, expected %s' % (list(map(tok, fs)), None if r is None else tok(r), want)
    # disjointness of tuples
    if ss:
        closures = {tok(s): {n for n, B in fam.items() if B <= fam[tok(s)]} for s in ss}
        for _ in range(14):
            m = rnd.randint(1, 4)
            tup = [rnd.choice(ss) for _ in range(m)]
            want = all(not (closures[tok(tup[i])] & closures[tok(tup[j])]) for i in range(m) for j in range(i + 1, m))
            got = c.disjoint(tup)
            if bool(got) != want:
                return '[disjoint/wrong] disjoint(%s) = %s but the closures are %spairwise disjoint' % (list(map(tok, tup)), got, '' if want else 'not ')
    return None

# ================================================================ C06
@oracle('c06')
def o_c06(w, args):
    c = w.vars[args[0]]; rnd = random.Random(int(args[1]) if len(args) > 1 else 0)
    own = own_betti(c); mx = c.maxOrder()
    got = c.bettiNumbers()
    if dict(got) != own:
        return '[betti/default] bettiNumbers() = %s, the GF(2) ranks of the stored complex give %s' % (dict(got), own)
    if mx >= 0 and own[0] != components(c):
        return '[betti/components] betti 0 = %d but the complex has %d connected components' % (own[0], components(c))
    chi = c.eulerCharacteristic()
    if sum((-1) ** k * own[k] for k in own) != chi:
        return '[betti/euler-poincare] alternating sum of Betti numbers %s is not the Euler characteristic %d' % (own, chi)
    for _ in range(5):
        ks = [rnd.randint(0, mx + 2) for _ in range(rnd.randint(1, 4))]
        if rnd.random() < 0.3: ks = sorted(ks, reverse=True)
        got = c.bettiNumbers(list(ks))
        want = {k: own.get(k, 0) for k in ks}
        if mx < 0 and 0 in ks:
            continue
        if dict(got) != want:
            return '[betti/selected-orders] bettiNumbers(%s) = %s, expected %s' % (ks, dict(got), want)
    return None

@oracle('c06-inv')
def o_c06_inv(w, args):
    """the Betti numbers depend only on the family of vertex sets: rebuild it under other names, in
    another insertion order, and through copy / relabel"""
    c = w.vars[args[0]]; rnd = random.Random(int(args[1]) if len(args) > 1 else 0)
    want = dict(c.bettiNumbers())
    fam = sorted({vs(c, s) for s in c.simplices()}, key=lambda V: (len(V), sorted(V)))
    pts = sorted({p for V in fam for p in V}); rnd.shuffle(pts)
    ren = {p: i + 100 for i, p in enumerate(pts)}
    d = SimplicialComplex()
    for p in pts:
        d.addSimplex(id=ren[p])
    hi = [V for V in fam if len(V) > 1]
    maximal = [V for V in hi if not any(V < U for U in hi)]
    rnd.shuffle(maximal)
    for V in maximal:
        d.addSimplexWithBasis([ren[p] for p in V])
    if dict(d.bettiNumbers()) != want:
        return '[betti/not-invariant] %s on the stored complex, %s on the same family rebuilt under other names' % (want, dict(d.bettiNumbers()))
    e = c.copy()
    if dict(e.bettiNumbers()) != want:
        return '[betti/not-invariant-copy] %s on the complex, %s on its copy' % (want, dict(e.bettiNumbers()))
    return None

# ================================================================ C07
@oracle('c07')
def o_c07(w, args):
    c = w.vars[args[0]]; rnd = random.Random(int(args[1]) if len(args) > 1 else 0)
    per, r = own_ranks(c); mx = c.maxOrder()
    for k in range(mx + 2):
        S = c.smithNormalForm(k); B = c.boundaryOperator(k)
        if S.shape != B.shape:
            return '[snf/shape] smithNormalForm(%d) has shape %s, the boundary operator %s' % (k, S.shape, B.shape)
        rk = r.get(k, 0)
        nr, nc = S.shape
        for i in range(nr):
            for j in range(nc):
                want = 1 if (i == j and i < rk) else 0
                if S[i, j] != want:
                    return '[snf/not-normal-form] smithNormalForm(%d)[%d,%d] = %r; the GF(2) rank of the operator is %d' % (k, i, j, S[i, j], rk)
    def check_Z(z, ks):
        for k in ks:
            chains = z[k]
            nk = len(per[k]) if 0 <= k <= mx else 0
            null = nk - r.get(k, 0)
            if len(chains) != null:
                return '[Z/count] Z()[%d] has %d chains, the nullity of the boundary operator is %d' % (k, len(chains), null)
            pos = {tok(s): i for i, s in enumerate(per[k])} if 0 <= k <= mx else {}
            vecs = []
            for ch in chains:
                acc = {}
                v = 0
                for s in ch:
                    if tok(s) not in pos:
                        return '[Z/foreign] chain %s of order %d contains %s' % (list(map(tok, ch)), k, tok(s))
                    v ^= 1 << pos[tok(s)]
                    for f in c.faces(s):
                        acc[tok(f)] = acc.get(tok(f), 0) + 1
                odd = sorted(t for t, n in acc.items() if n % 2)
                if odd:
                    return '[Z/not-a-cycle] chain %s of Z()[%d] has boundary %s' % (list(map(tok, ch)), k, odd)
                vecs.append(v)
            if gf2_rank(list(vecs)) != len(vecs):
                return '[Z/dependent] the chains of Z()[%d] are linearly dependent mod 2' % k
        return None
    z = c.Z()
    if sorted(z.keys()) != list(range(1, mx + 1)):
        return '[Z/orders] Z() has orders %s' % sorted(z.keys())
    m = check_Z(z, sorted(z.keys()))
    if m: return m
    ks = [rnd.randint(0, mx + 1) for _ in range(3)]
    if mx >= 0:
        z2 = c.Z(list(ks))
        m = check_Z(z2, sorted(set(ks)))
        if m: return m.replace('Z()[', 'Z(%s)[' % ks)
    return None

# ================================================================ C10
@oracle('c10')
def o_c10(w, args):
    a = w.vars[args[0]]; b = w.vars[args[1]]
    def le(x, y):
        for s in x.simplices():
            if not has(y, s): return False
            if y.orderOf(s) != x.orderOf(s): return False
            if set(map(tok, y.faces(s))) != set(map(tok, x.faces(s))): return False
        return True
    na = len(a.simplices()); nb = len(b.simplices())
    want = {'<=': le(a, b), '>=': le(b, a)}
    want['=='] = want['<='] and na == nb
    want['!='] = not want['==']
    want['<'] = want['<='] and not want['==']
    want['>'] = want['>='] and not (want['>='] and na == nb)
    got = {'<=': a <= b, '>=': a >= b, '==': a == b, '!=': a != b, '<': a < b, '>': a > b}
    for op in want:
        if bool(got[op]) != want[op]:
            return '[cmp/%s] %s %s %s is %s, expected %s (a: %s ; b: %s)' % (
                {'<=': 'le', '>=': 'ge', '==': 'eq', '!=': 'ne', '<': 'lt', '>': 'gt'}[op], args[0], op, args[1], got[op], want[op],
                list(map(tok, a.simplices()))[:8], list(map(tok, b.simplices()))[:8])
    return None

@oracle('c06-zoo')
def o_c06_zoo(w, args):
    c = w.vars[args[0]]
    want = {int(k): int(v) for k, v in (p.split(':') for p in args[1].split(','))}
    got = dict(c.bettiNumbers())
    if got != want:
        return '[betti/closed-form] bettiNumbers() = %s, the space has mod-2 Betti numbers %s' % (got, want)
    if own_betti(c) != want:
        return 'oracle inconsistency: own ranks give %s, closed form %s' % (own_betti(c), want)
    return None
