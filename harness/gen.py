"""gen.py -- script generators: structured, mostly-valid random histories (with a separate
malformed stream) driven by a live implementation world, and the exhaustive enumerations of
small complexes.  Every random choice derives from one random.Random instance."""
import itertools, random
from harness import impl
from harness.impl import tok, list_s

# name universes: ints, strs (with look-alikes of library-generated names), tuples, floats, mixtures
POOLS = {
    'int': [1, 2, 3, 4, 5, 6, 12, 13, 23, 123, 0, -1],
    'str': ['a', 'b', 'c', 'd', 'e', 'ab', 'bc', 'abc', '0d0', '1d0', '1d1', '2d0', '0d1', '1d2', ''],
    'tup': [(1,), (1, 2), ('a', 1), (2, 'b'), ((1, 2), 3), ()],
    'flt': [0.5, 1.5, -0.25, 2.75],
}
POOLS['int5'] = [1, 2, 3, 4, 5]
POOLS['str5'] = ['a', 'b', 'c', 'd', 'e']
POOLS['strplain'] = ['a', 'b', 'c', 'd', 'e', 'ab', 'bc', 'abc', 'x', '']
POOLS['mixplain'] = POOLS['int'][:5] + [0] + POOLS['strplain'][:4] + [''] + POOLS['tup'][:3] + [()] + POOLS['flt'][:2]
POOLS['mix'] = POOLS['int'][:5] + [0] + POOLS['str'][:4] + POOLS['str'][8:11] + [''] + POOLS['tup'][:3] + [()] + POOLS['flt'][:2]

import re as _re
_AUTO = _re.compile(r'^\d+d\d+$')
def _is_auto(n):
    return type(n) is str and _AUTO.match(n) is not None

def optname_tok(n):
    return '-' if n is None else tok(n)

def attr_tok(rnd, w, p_none=0.6):
    r = rnd.random()
    if r < p_none:
        return '-'
    if r < p_none + 0.1 and w.dicts:
        return '#%d' % rnd.randrange(len(w.dicts))
    k = rnd.choice(['x', 'height', 'lbl'])
    v = rnd.choice(['i0', 'i1', 'i2', 'i3', 's%22z%22', 's%5B1%2C2%5D'])
    return '{ s%s %s }' % (k, v)


class Gen:
    """Generates a script step by step against a live implementation world, so that most calls
    are valid; `bad` is the probability of drawing from the malformed stream."""

    def __init__(self, rnd, pool='mix', bad=0.2, ops=None, snap=True, var='a', after=(), before=(), twin=None, max_points=None, pad=0, quiet=0.0):
        self.rnd = rnd; self.pool = POOLS[pool]; self.bad = bad; self.snap = snap
        self.after = list(after); self.before = list(before); self.twin = twin; self.max_points = max_points
        self.w = impl.ImplWorld()
        self.lines = []
        self.var = var
        self.ops = ops or dict(point=3, faces=4, basis=4, delete=2, restrict=1, subdiv=1, relabel1=1,
                               relabel=1, addfrom=1, delb=0.5, dels=0.5, ensure=0.3, dupfaces=0.7, dupbasis=0.5)
        self.stats = {}
        self.quiet = quiet; self.quiet_left = 0
        self.emit('new ' + var, snap=False)
        if twin:
            self.emit('new ' + twin, snap=False)
        if pad:
            self.padding(pad)

    def padding(self, n):
        """a block of n points (int and str names side by side), all edges among the first 9 of them
        (36: more than any small-size threshold) with generated, int and str names in one order, and a
        few triangles -- so that the history runs on a complex of 50+ simplices"""
        v = self.var; no_auto = bool(self.twin)
        pts = [900 + i if i % 2 == 0 else 'P%d' % i for i in range(n)]
        def put(line):
            if self.twin:
                t = line.split(); line = ' '.join(['both', t[1], self.twin, t[0]] + t[2:])
            self.lines.append(line); self.w.exec(line)
        for p in pts:
            put('add %s [ ] %s -' % (v, tok(p)))
        k = 0; core = pts[:9]
        for i in range(len(core)):
            for j in range(i + 1, len(core)):
                k += 1
                nm = tok(950 + k) if k % 3 == 0 else (tok('E%d' % k) if (k % 3 == 1 or no_auto) else '-')
                put('add %s [ %s %s ] %s -' % (v, tok(core[i]), tok(core[j]), nm))
        c = self.c()
        for (a, b, d) in [(0, 1, 2), (0, 1, 3), (2, 3, 4), (5, 6, 7)]:
            bs = [core[a], core[b], core[d]]
            if no_auto:
                fs = [c.simplexWithBasis([x for x in bs if x is not y]) for y in bs]
                put('add %s %s %s -' % (v, list_s(fs), tok('T%d%d%d' % (a, b, d))))
            else:
                put('addb %s %s - -' % (v, list_s(bs)))
        self.stats['padded'] = self.stats.get('padded', 0) + 1

    def emit(self, line, snap=None):
        main = (snap is None)
        if main and self.quiet_left > 0:
            # a quiet step: the request goes out with nothing looking at the complex before or after it
            # (state that only a later query would repair stays as the request left it)
            self.quiet_left -= 1
            self.stats['quiet_steps'] = self.stats.get('quiet_steps', 0) + 1
            if self.twin and not getattr(self, 'no_twin', False):
                t = line.split(); xl = ' '.join(['both', t[1], self.twin, t[0]] + t[2:])
            else:
                xl = line
            self.lines.append('echo --'); self.lines.append(xl)
            o = self.w.exec(xl)[1]
            kw = line.split()[0]; self.stats[kw] = self.stats.get(kw, 0) + 1
            if o and o[0].startswith('err'):
                self.stats['rejected'] = self.stats.get('rejected', 0) + 1
            return o
        if main:
            self.lines.append('echo --')        # unit boundary (for the shrinker)
            for b in self.before:
                b = b.replace('{line}', line)
                self.lines.append(b); self.w.exec(b)
        if main and self.twin and not getattr(self, 'no_twin', False):
            t = line.split()
            xl = ' '.join(['both', t[1], self.twin, t[0]] + t[2:])
        else:
            xl = line
        self.lines.append(xl)
        a, o = self.w.exec(xl)
        kw = line.split()[0]
        self.stats[kw] = self.stats.get(kw, 0) + 1
        if o and o[0].startswith('err'):
            self.stats['rejected'] = self.stats.get('rejected', 0) + 1
        hooks_first = main and self.after and self.rnd.random() < 0.4       # sometimes the oracle looks before the snapshot does
        def hooks():
            for x in self.after:
                x = x.replace('{seed}', str(self.rnd.randrange(10 ** 6)))
                self.lines.append(x); self.w.exec(x)
        if hooks_first:
            hooks()
        if snap if snap is not None else self.snap:
            v = line.split()[1] if len(line.split()) > 1 else self.var
            if v in self.w.vars and isinstance(self.w.vars[v], impl.SimplicialComplex):
                self.lines.append('snap ' + v)
        if main and not hooks_first:
            hooks()
        return o

    def c(self):
        return self.w.vars[self.var]

    def fresh_or_any(self):
        return self.rnd.choice(self.pool)

    def some_simplex(self, k=None):
        c = self.c()
        ss = c.simplices() if k is None else c.simplicesOfOrder(k)
        if self.twin:
            # scripts with a twin never refer to a library-generated name
            ss = [s for s in ss if not _is_auto(s)]
        return self.rnd.choice(ss) if ss else self.rnd.choice(self.pool)

    def step(self):
        from harness import oracles
        if getattr(self, 'dead', False):
            return None
        if self.quiet and self.quiet_left == 0 and self.rnd.random() < self.quiet:
            self.quiet_left = self.rnd.randint(1, 3)
        for attempt in range(8):
            self.no_twin = False
            try:
                line = self.forced.pop(0) if getattr(self, 'forced', None) else self.draw()
            except Exception as e:
                # the implementation raised on a read-only query while the next request was being
                # chosen: stop extending this script (executing it will show the broken state)
                self.dead = True
                self.stats['generator_stopped_by_exception'] = self.stats.get('generator_stopped_by_exception', 0) + 1
                return None
            if line is None:
                continue
            try:
                cls = oracles.classify(self.c(), line, self.w)
            except Exception:
                cls = 'other'
            if cls == 'ooc' and getattr(self, 'force', False):
                # a request outside every contract that the library nevertheless accepts (faces that
                # are not the facets of one vertex set): issued on purpose, so that the *following*
                # requests meet such a simplex; no property is checked on this request itself
                self.force = False
                self.stats['accepted_out_of_contract'] = self.stats.get('accepted_out_of_contract', 0) + 1
                o = self.emit(line)
                if o and o[0].startswith('ok'):
                    # ... and straight away the same faces again (other order, other name): a
                    # documented-invalid request whatever the simplex looks like
                    T = line.split(); fs = T[3:T.index(']')]; self.rnd.shuffle(fs)
                    free = [x for x in self.pool if x not in self.c()]
                    nm = tok(free[0]) if free else '-'
                    if not (self.twin and nm == '-'):
                        dup = 'add %s [ %s ] %s -' % (self.var, ' '.join(fs), nm)
                        self.stats['class_invalid'] = self.stats.get('class_invalid', 0) + 1
                        return self.emit(dup)
                return o
            self.force = False
            if cls == 'ooc':
                self.stats['redrawn_out_of_contract'] = self.stats.get('redrawn_out_of_contract', 0) + 1
                continue
            self.stats['class_' + cls] = self.stats.get('class_' + cls, 0) + 1
            return self.emit(line)
        return None

    def draw(self):
        rnd = self.rnd; c = self.c(); v = self.var
        op = rnd.choices(list(self.ops.keys()), list(self.ops.values()))[0]
        bad = rnd.random() < self.bad
        pts = c.simplicesOfOrder(0)
        if self.twin:
            pts = [x for x in pts if not _is_auto(x)]
        full = self.max_points is not None and len(c.simplicesOfOrder(0)) >= self.max_points
        if full and op in ('point', 'subdiv', 'addfrom', 'ensure'):
            return None          # keep the complex small (flag / Vietoris-Rips complexes explode otherwise)
        if op == 'point':
            n = rnd.choice([None, None] + self.pool) if not bad else self.some_simplex()
            return 'add %s [ ] %s %s' % (v, optname_tok(n), attr_tok(rnd, self.w))
        if op == 'faces':
            if not bad and len(pts) >= 2:
                k = rnd.randint(1, min(3, len(pts) - 1))
                V = rnd.sample(pts, k + 1)
                fs = [c.simplexWithBasis([x for x in V if x is not y and x != y]) for y in V]
                if all(f is not None for f in fs) and not (self.twin and any(_is_auto(f) for f in fs)):
                    rnd.shuffle(fs)
                    n = rnd.choice([None, None, None] + self.pool + [x for x in self.pool if not x])
                    return 'add %s %s %s %s' % (v, list_s(fs), optname_tok(n), attr_tok(rnd, self.w))
                # facets missing: fall through to a basis add to build them
                n = rnd.choice([None, None, None] + self.pool)
                return 'addb %s %s %s %s' % (v, list_s(V), optname_tok(n), attr_tok(rnd, self.w))
            # malformed: arbitrary existing/unknown simplices as faces
            m = rnd.randint(1, 4)
            fs = [self.some_simplex() if rnd.random() < 0.8 else rnd.choice(self.pool) for _ in range(m)]
            n = rnd.choice([None, None] + self.pool)
            return 'add %s %s %s %s' % (v, list_s(fs), optname_tok(n), attr_tok(rnd, self.w))
        if op == 'basis':
            m = rnd.randint(2, 4)
            if not bad:
                cand = list(pts) + ([] if full else [x for x in self.pool if x not in c][:max(0, (self.max_points or 99) - len(pts))])
                cand = list(dict.fromkeys(cand))
                if len(cand) < m:
                    return None
                bs = rnd.sample(cand, m)
                n = rnd.choice([None, None, None] + [x for x in self.pool if x not in c and x not in bs][:3])
            else:
                bs = [self.some_simplex() if rnd.random() < 0.7 else rnd.choice(self.pool) for _ in range(m)]
                n = rnd.choice([None] + self.pool)
            return 'addb %s %s %s %s' % (v, list_s(bs), optname_tok(n), attr_tok(rnd, self.w))
        if op == 'weird':
            # k+1 distinct (k-1)-simplices that do NOT bound a k-simplex (an open path of edges, ...)
            k = 2
            es = [e for e in (c.simplicesOfOrder(1) if c.maxOrder() >= 1 else []) if not (self.twin and _is_auto(e))]
            if len(es) < 3:
                return None
            for _ in range(6):
                fs = rnd.sample(es, 3)
                pts_ = set()
                for e in fs:
                    pts_ |= set(map(tok, c.basisOf(e)))
                if len(pts_) > 3:
                    n = rnd.choice([x for x in self.pool if x not in c][:3] or [None])
                    if n is None and self.twin:
                        return None
                    self.force = True
                    return 'add %s %s %s -' % (v, list_s(fs), optname_tok(n))
            return None
        if op == 'dupfaces':
            hi = [s for s in c.simplices() if c.orderOf(s) >= 1]
            if self.twin:
                hi = [s for s in hi if not any(_is_auto(f) for f in c.faces(s))]
            if not hi:
                return None
            low = [x for x in hi if c.orderOf(x) < c.maxOrder()]       # below the top order: the matrices above are at stake
            falsy = [x for x in hi if not x]                           # a simplex whose name is 0, '' or ()
            s = rnd.choice(falsy if falsy and rnd.random() < 0.5 else (low if low and rnd.random() < 0.7 else hi)); fs = list(c.faces(s)); rnd.shuffle(fs)
            n = rnd.choice([None] + [x for x in self.pool if x not in c][:4])
            return 'add %s %s %s %s' % (v, list_s(fs), optname_tok(n), attr_tok(rnd, self.w))
        if op == 'dupbasis':
            hi = [s for s in c.simplices() if c.orderOf(s) >= 1]
            if self.twin:
                hi = [s for s in hi if not any(_is_auto(f) for f in c.basisOf(s))]
            if not hi:
                return None
            falsy = [x for x in hi if not x]
            s = rnd.choice(falsy if falsy and rnd.random() < 0.5 else hi); bs = list(c.basisOf(s)); rnd.shuffle(bs)
            n = rnd.choice([None] + [x for x in self.pool if x not in c][:4])
            return 'addb %s %s %s %s' % (v, list_s(bs), optname_tok(n), attr_tok(rnd, self.w))
        if op == 'copyinto':
            # a target complex sharing (or not) a name with us, possibly at another order
            tgt = 'y'
            self.emit('new ' + tgt, snap=False)
            ss = c.simplices()
            fresh = [x for x in self.pool if x not in c]
            names = []
            for _ in range(rnd.randint(1, 3)):
                if ss and rnd.random() < 0.35:
                    names.append(rnd.choice(ss))
                elif fresh:
                    names.append(fresh.pop(rnd.randrange(len(fresh))))
            names = list(dict.fromkeys(names))
            if len(names) >= 3 and rnd.random() < 0.7:
                # the last name becomes an edge of the target
                self.emit('add %s [ ] %s -' % (tgt, tok(names[0])), snap=False)
                self.emit('add %s [ ] %s -' % (tgt, tok(names[1])), snap=False)
                self.emit('add %s %s %s -' % (tgt, list_s(names[:2]), tok(names[2])), snap=False)
            else:
                for x in names:
                    self.emit('add %s [ ] %s -' % (tgt, tok(x)), snap=False)
            self.no_twin = True
            return 'copyinto %s %s' % (v, tgt)
        if op == 'ensure':
            bs = [rnd.choice(self.pool) if rnd.random() < 0.5 else self.some_simplex() for _ in range(rnd.randint(1, 3))]
            return 'ensure %s %s %s' % (v, list_s(bs), attr_tok(rnd, self.w))
        if op == 'delete':
            s = self.some_simplex() if not bad else rnd.choice(self.pool)
            return 'del %s %s' % (v, tok(s))
        if op == 'delb':
            cand = c.simplices()
            if self.twin:
                cand = [x for x in cand if not any(_is_auto(p) for p in c.basisOf(x))]
            s = self.rnd.choice(cand) if cand else self.some_simplex()
            bs = list(c.basisOf(s)) if s in c and not bad else [rnd.choice(self.pool) for _ in range(2)]
            rnd.shuffle(bs)
            return 'delb %s %s' % (v, list_s(bs))
        if op == 'dels':
            ss = [self.some_simplex() for _ in range(rnd.randint(0, 3))]
            return 'dels %s %s' % (v, list_s(ss))
        if op == 'restrict':
            if not bad and pts and rnd.random() < 0.3:
                # a list that mentions points more than once (often exactly as long as the point list)
                bs = [rnd.choice(pts) for _ in range(len(pts) if rnd.random() < 0.6 else rnd.randint(1, len(pts) + 2))]
            elif not bad and pts:
                bs = rnd.sample(pts, rnd.randint(0, len(pts)))
            else:
                bs = [self.some_simplex() if rnd.random() < 0.6 else rnd.choice(self.pool) for _ in range(rnd.randint(1, 3))]
            return 'restrict %s %s' % (v, list_s(bs))
        if op == 'subdiv':
            hi = [s for s in c.simplices() if c.orderOf(s) >= 1 and not (self.twin and _is_auto(s))]
            s = rnd.choice(hi) if hi and not bad else (self.some_simplex() if rnd.random() < 0.5 else rnd.choice(self.pool))
            return 'subdiv %s %s ?' % (v, tok(s))
        if op == 'relabel1':
            s = self.some_simplex() if rnd.random() < 0.9 else rnd.choice(self.pool)
            q = rnd.choice([x for x in self.pool if x not in c] or self.pool) if not bad else self.some_simplex()
            if not bad and not self.twin and any(type(x) is str for x in self.pool) and rnd.random() < 0.3 and s in c:
                # a name of the shape the library generates, a little AHEAD of what it has handed out so far:
                # the next anonymous simplices of that order must steer around it
                ahead = max([int(x.split('d')[1]) for x in c.simplices() if _is_auto(x)] + [len(c.simplices())]) + rnd.randint(0, 3)
                q = '%dd%d' % (rnd.choice([c.orderOf(s), 0, 0, 1]), ahead)
                if q in c:
                    return None
                if q.startswith('0d'):
                    # ... and the next few requests are anonymous points, whose generated names walk up to it
                    self.forced = ['add %s [ ] - -' % v] * rnd.randint(2, 5)
            return 'relabel1 %s %s %s' % (v, tok(s), tok(q))
        if op == 'relabel':
            ss = c.simplices()
            r = rnd.random()
            if r < 0.6:
                free = [x for x in self.pool if x not in c]
                rnd.shuffle(free)
                if self.twin:
                    ss = [x for x in ss if not _is_auto(x)]
                chosen = rnd.sample(ss, min(len(ss), rnd.randint(0, 3)))
                m = []
                if bad and len(ss) >= 2 and free and rnd.random() < 0.35:
                    # two (or three) simplices sent onto one and the same unused name
                    tgt = free.pop()
                    for s in rnd.sample(ss, min(len(ss), rnd.randint(2, 3))):
                        m += [s, tgt]
                    for s in chosen:
                        if s not in m[0::2] and free and rnd.random() < 0.5:
                            m += [s, free.pop()]
                    pairs = [m[i:i + 2] for i in range(0, len(m), 2)]; rnd.shuffle(pairs)
                    return 'relabel %s map %s' % (v, list_s([x for pr in pairs for x in pr]))
                if len(ss) >= 3 and len(free) >= 2 and rnd.random() < 0.25:
                    # a forward chain a -> b, b -> fresh (the code rejects it when a is listed before b) next
                    # to an unrelated rename: whatever the verdict, a rejection must leave everything alone
                    x, a_, b_ = rnd.sample(ss, 3)
                    if rnd.random() < 0.6:
                        x, a_, b_ = sorted([x, a_, b_], key=lambda y: [tok(z) for z in c.simplices()].index(tok(y)))
                    pairs = [[x, free.pop()], [a_, b_], [b_, free.pop()]]
                    rnd.shuffle(pairs)
                    return 'relabel %s map %s' % (v, list_s([y for pr in pairs for y in pr]))
                if bad and len(ss) >= 3 and free and rnd.random() < 0.4:
                    # a harmless rename listed BEFORE one onto a name in use that the map does not mention:
                    # the whole request is invalid and must leave the first rename undone too
                    order_ = [tok(z) for z in c.simplices()]
                    a_, b_, u_ = sorted(rnd.sample(ss, 3), key=lambda y: order_.index(tok(y)))
                    pairs = [[a_, free.pop()], [b_, u_]]
                    rnd.shuffle(pairs)
                    return 'relabel %s map %s' % (v, list_s([y for pr in pairs for y in pr]))
                for s in chosen:
                    if bad and rnd.random() < 0.5 and ss:
                        m += [s, rnd.choice(ss)]
                    elif free:
                        m += [s, free.pop()]
                return 'relabel %s map %s' % (v, list_s(m))
            if self.twin:
                return 'relabel %s count %d' % (v, rnd.choice([100, 1000]))
            if r < 0.8:
                return 'relabel %s tup %d' % (v, rnd.randint(0, 2))
            if r < 0.9:
                return 'relabel %s count %d' % (v, rnd.choice([100, 1000, 1]))
            return 'relabel %s prefix s%s' % (v, rnd.choice(['p', 'x_']))
        if op == 'addfrom':
            # build a small source complex in a second variable, then bulk add
            src = 'z'
            self.emit('new ' + src, snap=False)
            n = rnd.randint(1, 3)
            names = rnd.sample(self.pool, n)
            for x in names:
                self.emit('add %s [ ] %s %s' % (src, tok(x), attr_tok(rnd, self.w)), snap=False)
            if n >= 2 and rnd.random() < 0.8:
                if self.twin:
                    # no library-generated names in a twinned history: name the simplex explicitly
                    free = [x for x in self.pool if x not in c and x not in names]
                    if free:
                        self.emit('add %s %s %s %s' % (src, list_s(names[:2]), tok(rnd.choice(free)), attr_tok(rnd, self.w)), snap=False)
                else:
                    self.emit('addb %s %s - %s' % (src, list_s(names), attr_tok(rnd, self.w)), snap=False)
            r = rnd.random()
            if r < 0.4:
                rn = '-'
            elif r < 0.7:
                rn = 'tup %d' % rnd.randint(5, 7)
            elif r < 0.85:
                free = [x for x in self.pool if x not in c and x not in names]
                m = []
                for x in names:
                    if free and rnd.random() < 0.7:
                        m += [x, free.pop()]
                rn = 'map ' + list_s(m)
            else:
                rn = 'count %d' % rnd.choice([500, 900])
            return 'addfrom %s %s %s' % (v, src, rn)
        raise ValueError(op)


def random_script(rnd, steps, **kw):
    g = Gen(rnd, **kw)
    for _ in range(steps):
        g.step()
    return g.lines, g.stats


# ---------------------------------------------------------------- exhaustive small complexes
def all_complexes(n):
    """All abstract simplicial complexes on the labelled points 0..n-1 (every point present or not),
    as sorted lists of vertex-set tuples.  2, 5, 19, 167, 7580 for n = 1..5 (including the empty one)."""
    pts = list(range(n))
    subsets = [s for k in range(1, n + 1) for s in itertools.combinations(pts, k)]
    out = []
    # enumerate by maximal faces: every antichain of subsets generates a complex
    def closure(faces):
        cl = set()
        for f in faces:
            for k in range(1, len(f) + 1):
                cl.update(itertools.combinations(f, k))
        return frozenset(cl)
    seen = {frozenset()}
    frontier = [frozenset()]
    while frontier:
        nxt = []
        for cx in frontier:
            for s in subsets:
                if s not in cx:
                    c2 = frozenset(cx | closure([s]))
                    if c2 not in seen:
                        seen.add(c2); nxt.append(c2)
        frontier = nxt
    return [sorted(cx, key=lambda s: (len(s), s)) for cx in sorted(seen, key=lambda c: (len(c), sorted(c)))]
