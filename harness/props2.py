"""props2.py -- workloads of C02, C04, C06, C07, C08, C09, C10, C11, C12, C15 - C20."""
import itertools, random, math
from harness import gen, impl
from harness.impl import tok, list_s, idx_tok
from harness.props import (prop, Prop, build_lines, complexes, NAME_SCHEMES, merge_stats, history_workload)

def implonly(lines):
    return [l if l.split()[0] in ('check', 'echo', 'sync', 'snap', 'q') else '! ' + l for l in lines if not l.startswith('snap')]

def scheme_names(n, scheme, cx):
    """point names by scheme; higher simplices get names tied to their vertex sets"""
    nm = dict(NAME_SCHEMES[scheme](n))
    pname = lambda p: nm.get(p, p + 1)
    for s in cx:
        if len(s) > 1:
            if scheme == 'int':
                nm[s] = int(''.join(str(p + 1) for p in s)) * 10 + 7
            elif scheme == 'str':
                nm[s] = ''.join(str(pname(p)) for p in s) + '_'
            else:
                nm[s] = tuple(pname(p) for p in s) + ('S',)
    return nm

# ================================================================ C02
@prop('C02')
class C02(Prop):
    def workload(self, tier, rnd):
        scripts = []; stats = {}
        # (a) random histories, every request bracketed by the effect oracle
        n = 70 if tier == 'quick' else 2000
        sc, st = history_workload(rnd, n, (8, 24) if tier == 'quick' else (10, 40), bad=0.1,
                                  before=['check c02-pre a {line}'], after=['check c02-post a'],
                                  ops=dict(point=2, faces=4, basis=5, delete=3, restrict=1.5, subdiv=1.5, addfrom=2.5, delb=1, dels=1, ensure=0.5, relabel1=1.2, relabel=0.4, dupfaces=1.5, dupbasis=0.7))
        scripts += sc; merge_stats(stats, st)
        # (b) exhaustive: every small complex x every applicable request
        N = 4 if tier == 'quick' else 5
        cxs = complexes(N)
        if tier == 'quick':
            cxs = cxs[::2]
        elif len(cxs) > 2500:
            cxs = cxs[:167] + rnd.sample(cxs[167:], 1500)
        for ci, cx in enumerate(cxs):
            scheme = ('int', 'str', 'tup', 'mix')[ci % 4]
            route = 'faces' if ci % 3 else 'basis'
            pts = sorted({p for s in cx for p in s})
            nm = scheme_names(N, scheme, cx) if route == 'faces' else dict(NAME_SCHEMES[scheme](N))
            pname = lambda p: nm.get(p, p + 1)
            lines = build_lines('a', cx, names=nm, route=route, rnd=rnd)
            reqs = []
            S = set(cx)
            if route == 'faces':
                for s in cx:
                    reqs.append('del t %s' % tok(nm.get(s, pname(s[0])) if len(s) > 1 else pname(s[0])))
                    if len(s) > 1:
                        reqs.append('subdiv t %s ?' % tok(nm[s]))
            else:
                for s in cx:
                    reqs.append('delb t %s' % list_s([pname(p) for p in s]))
            for k in range(0, len(pts) + 1):
                for sub in itertools.combinations(pts, k):
                    reqs.append('restrict t %s' % list_s([pname(p) for p in sub]))
                    if 0 < k < len(pts):
                        # the same set written with repeats, padded to the number of points
                        rep = list(sub) + [sub[i % k] for i in range(len(pts) - k)]
                        reqs.append('restrict t %s' % list_s([pname(p) for p in rep]))
            newp = 'zz' if scheme != 'int' else 99
            for k in range(2, min(len(pts) + 1, 4) + 1):
                for sub in itertools.combinations(pts + [None], k):
                    V = tuple(p for p in sub if p is not None)
                    if None not in sub and V in S:
                        continue
                    reqs.append('addb t %s - -' % list_s([pname(p) if p is not None else newp for p in sub]))
            if tier == 'quick' and len(reqs) > 14:
                reqs = rnd.sample(reqs, 14)
            elif len(reqs) > 40:
                reqs = rnd.sample(reqs, 40)
            for r in reqs:
                lines += ['copy t a', 'check c02-pre t ' + r, r, 'check c02-post t']
            scripts.append(lines)
        return scripts, {'op_mix': stats, 'exhaustive': False,
                         'generator': 'random histories + every complex on <= %d points (%d of them) x sampled delete/restrict/subdivide/add-by-basis requests, 4 naming schemes, 2 construction routes' % (N, len(cxs))}

# ================================================================ C04
def query_lines_c04(rnd, cx_lines, nsimp_names, seed):
    return []

@prop('C04')
class C04(Prop):
    def workload(self, tier, rnd):
        scripts = []; stats = {}
        N = 4 if tier == 'quick' else 5
        cxs = complexes(N)
        if tier == 'quick':
            cxs = cxs[1::2]
        elif len(cxs) > 3000:
            cxs = cxs[:167] + rnd.sample(cxs[167:], 2500)
        for ci, cx in enumerate(cxs):
            if not cx: continue
            scheme = ('int', 'str', 'tup', 'mix')[ci % 4]
            route = 'faces' if ci % 2 else 'basis'
            nm = scheme_names(N, scheme, cx) if route == 'faces' else dict(NAME_SCHEMES[scheme](N))
            pname = lambda p: nm.get(p, p + 1)
            lines = implonly(build_lines('a', cx, names=nm, route=route, rnd=rnd))
            lines += ['sync a', 'check c04 a %d' % rnd.randrange(10 ** 6)]
            # compared queries (model tie): by basis, so that library-generated names never matter
            pick = rnd.sample(cx, min(len(cx), 3))
            for s in pick:
                bs = list_s([pname(p) for p in s])
                lines.append('q a withbasis %s' % bs)
                if route == 'faces':
                    name = tok(nm[s]) if len(s) > 1 else tok(pname(s[0]))
                    for r in '01':
                        for e in '01':
                            lines.append('q a closure %s %s %s' % (name, r, e))
                            lines.append('q a partof %s %s %s' % (name, r, e))
            # a basis that names a point twice (the lookups compare *sets* of points of exactly that many elements)
            pts_ = sorted(set(p for s in cx for p in s))
            for _ in range(2):
                p_ = rnd.choice(pts_); q_ = rnd.choice(pts_)
                dup = rnd.choice([[p_, p_], [p_, p_, q_], [p_, q_, p_], [q_, p_, p_, q_]])
                lines.append('q a withbasis %s' % list_s([pname(x) for x in dup]))
                lines.append('q a containsbasis %s' % list_s([pname(x) for x in dup]))
            if route == 'faces':
                names = [tok(nm[s]) if len(s) > 1 else tok(pname(s[0])) for s in cx]
                for _ in range(4):
                    tup = [rnd.choice(names) for _ in range(rnd.randint(1, 4))]
                    lines.append('q a disjoint [ %s ]' % ' '.join(tup))
            scripts.append(lines)
        # deep complexes: a full simplex on 7 (thorough: also 8) points -- stars and closures that span
        # six and more orders -- alone and next to a second component
        for k in ((6,) if tier == 'quick' else (6, 7)):
            scripts.append(['! gen simplex a %d sTOP -' % k, 'sync a', 'check c04 a %d' % rnd.randrange(10 ** 6),
                            'q a partof sTOP 0 0', 'q a closure sTOP 1 1'])
        scripts.append(['! gen simplex a 6 - -', '! add a [ ] i0 -', '! add a [ ] s -', '! add a [ i0 s ] () -', 'sync a',
                        'check c04 a %d' % rnd.randrange(10 ** 6)])
        # complexes reached by random histories (mixed names, deletions, relabelling)
        n = 30 if tier == 'quick' else 600
        for i in range(n):
            g = gen.Gen(rnd, pool=('mix', 'tup', 'str', 'int', 'flt')[i % 5], bad=0.15, snap=False, pad=(12 if i % 6 == 5 else 0),
                        after=['sync a', 'check c04 a {seed}'] if i % 2 else ())
            for _ in range(rnd.randint(6, 18)):
                g.step()
            lines = implonly(g.lines) + ['sync a', 'check c04 a %d' % rnd.randrange(10 ** 6)]
            scripts.append(lines); merge_stats(stats, g.stats)
        return scripts, {'op_mix': stats, 'generator': 'complexes on <= %d points (%d) under 4 naming schemes / 2 routes + random histories; every simplex x 4 flag combinations, lookups, 1-4-tuples for disjoint' % (N, len(cxs))}

# ================================================================ zoo of triangulated spaces
def _closure(faces):
    out = set()
    for f in faces:
        f = tuple(sorted(f))
        for k in range(1, len(f) + 1):
            out.update(itertools.combinations(f, k))
    return sorted(out, key=lambda s: (len(s), s))

TORUS7 = [(0, 1, 3), (1, 2, 4), (2, 3, 5), (3, 4, 6), (0, 4, 5), (1, 5, 6), (0, 2, 6),
          (0, 1, 5), (1, 2, 6), (0, 2, 3), (1, 3, 4), (2, 4, 5), (3, 5, 6), (0, 4, 6)]
RP2 = [(0, 1, 2), (0, 2, 3), (0, 3, 4), (0, 4, 5), (0, 1, 5), (1, 2, 4), (2, 3, 5), (1, 3, 4), (2, 4, 5), (1, 3, 5)]
KLEIN = [(0, 1, 4), (0, 3, 4), (1, 2, 5), (1, 4, 5), (0, 2, 6), (2, 5, 6), (3, 4, 7), (3, 6, 7), (4, 5, 8), (4, 7, 8),
         (5, 6, 8), (3, 6, 8)]   # checked numerically below, not trusted
def sphere(k):
    return [f for f in itertools.combinations(range(k + 2), k + 1)]
ZOO = [
    ('S1', _closure(sphere(1)), {0: 1, 1: 1}),
    ('S2', _closure(sphere(2)), {0: 1, 1: 0, 2: 1}),
    ('S3', _closure(sphere(3)), {0: 1, 1: 0, 2: 0, 3: 1}),
    ('torus', _closure(TORUS7), {0: 1, 1: 2, 2: 1}),
    ('RP2', _closure(RP2), {0: 1, 1: 1, 2: 1}),
    ('two-circles-wedge', _closure([(0, 1), (1, 2), (0, 2), (0, 3), (3, 4), (0, 4)]), {0: 1, 1: 2}),
    ('S1-join-two-points', _closure([(a, b, c) for (a, b) in [(0, 1), (1, 2), (0, 2)] for c in (3, 4)]), {0: 1, 1: 0, 2: 1}),
    ('disc-plus-point', _closure([(0, 1, 2), (3,)]), {0: 2, 1: 0, 2: 0}),
    ('S2-wedge-S1', _closure(sphere(2) + [(0, 4), (4, 5), (0, 5)]), {0: 1, 1: 1, 2: 1}),
]

def betti_queries(rnd, v, mx):
    ls = ['q %s betti -' % v]
    for _ in range(2):
        ks = [rnd.randint(0, mx + 2) for _ in range(rnd.randint(1, 4))]
        ls.append('q %s betti [ %s ]' % (v, ' '.join(map(str, ks))))
    return ls

@prop('C06')
class C06(Prop):
    def workload(self, tier, rnd):
        scripts = []; stats = {}
        N = 4 if tier == 'quick' else 5
        cxs = complexes(N)
        if tier == 'quick':
            cxs = cxs[::3]
        elif len(cxs) > 3000:
            cxs = cxs[:167] + rnd.sample(cxs[167:], 2500)
        for ci, cx in enumerate(cxs):
            scheme = ('int', 'str', 'tup', 'mix')[ci % 4]
            route = ci % 3
            mx = max([len(s) for s in cx], default=0) - 1
            if route == 0:
                lines = implonly(build_lines('a', cx, names=NAME_SCHEMES[scheme](N), route='basis', rnd=rnd))
            elif route == 1:
                lines = implonly(build_lines('a', cx, names=scheme_names(N, scheme, cx), route='faces', rnd=rnd))
            else:
                # via deletions from the full simplex on the same points, then a copy
                nm = NAME_SCHEMES[scheme](N); pname = lambda p: nm.get(p, p + 1)
                pts = sorted({p for s in cx for p in s})
                full = _closure([tuple(pts)]) if pts else []
                lines = build_lines('b', full, names=nm, route='basis', rnd=rnd)
                S = set(cx)
                for s in sorted(full, key=lambda s: -len(s)):
                    if s not in S:
                        lines.append('delb b %s' % list_s([pname(p) for p in s]))
                lines.append('copy a b')
                lines = implonly([l.replace('copy a b', 'copy a b [ ]') if False else l for l in lines])
            lines += ['sync a'] + betti_queries(rnd, 'a', mx) + ['q a euler', 'check c06 a %d' % rnd.randrange(10 ** 6)]
            if ci % 4 == 0:
                lines.append('check c06-inv a %d' % rnd.randrange(10 ** 6))
            scripts.append(lines)
        # the zoo, queried alternately in one world (a result must belong to the complex asked)
        lines = []
        for zi, (name, cx, want) in enumerate(ZOO):
            v = 'z%d' % zi
            lines += implonly(build_lines(v, cx, names=None, route='basis' if zi % 2 else 'faces', rnd=rnd))
            lines += ['sync ' + v, 'q %s betti -' % v, 'check c06-zoo %s %s' % (v, ','.join('%d:%d' % kv for kv in sorted(want.items())))]
        for _ in range(12 if tier == 'quick' else 60):
            zi = rnd.randrange(len(ZOO)); v = 'z%d' % zi
            lines += ['q %s betti -' % v, 'check c06 %s %d' % (v, rnd.randrange(10 ** 6))]
        scripts.append(lines)
        # histories with queries in between (query, mutate, query again), two complexes alive
        n = 25 if tier == 'quick' else 500
        for i in range(n):
            g = gen.Gen(rnd, pool=('int', 'mix', 'str')[i % 3], bad=0.15, snap=False,
                        after=['sync a', 'q a betti -', 'check c06 a {seed}'])
            g.lines.append('! gen simplex o 2 - -'); g.lines.append('sync o')
            for j in range(rnd.randint(5, 14)):
                g.step()
                if j % 3 == 0:
                    g.lines.append('q o betti -'); g.lines.append('check c06 o 1')
            scripts.append(implonly(g.lines)); merge_stats(stats, g.stats)
        # random larger complexes
        n = 6 if tier == 'quick' else 300
        for i in range(n):
            npts = rnd.randint(6, 9 if tier == 'quick' else 10)
            faces = [tuple(sorted(rnd.sample(range(npts), rnd.randint(2, 4)))) for _ in range(rnd.randint(4, 12))]
            cx = _closure(faces + [(p,) for p in range(npts)])
            lines = implonly(build_lines('a', cx, route='basis', rnd=rnd)) + ['sync a', 'q a betti -', 'check c06 a %d' % rnd.randrange(10 ** 6), 'check c06-inv a 3']
            scripts.append(lines)
        return scripts, {'op_mix': stats, 'generator': '%d small complexes x 3 routes x 4 naming schemes, zoo of %d spaces with closed-form Betti numbers, histories with interleaved queries, random complexes on 6-10 points' % (len(cxs), len(ZOO))}

@prop('C07')
class C07(Prop):
    def workload(self, tier, rnd):
        scripts = []; stats = {}
        N = 4 if tier == 'quick' else 5
        cxs = complexes(N)
        if tier == 'quick':
            cxs = cxs[1::3]
        elif len(cxs) > 3000:
            cxs = cxs[:167] + rnd.sample(cxs[167:], 2500)
        for ci, cx in enumerate(cxs):
            scheme = ('int', 'str', 'tup', 'mix')[ci % 4]
            mx = max([len(s) for s in cx], default=0) - 1
            lines = implonly(build_lines('a', cx, names=scheme_names(N, scheme, cx), route='faces', rnd=rnd))
            lines += ['sync a', 'q a Z -', 'q a Z [ %s ]' % ' '.join(str(rnd.randint(0, mx + 1)) for _ in range(2))]
            lines += ['q a snf %d' % k for k in range(mx + 2)] + ['check c07 a %d' % rnd.randrange(10 ** 6)]
            scripts.append(lines)
        for zi, (name, cx, want) in enumerate(ZOO):
            pts = sorted({p for s in cx for p in s}); order = list(cx)
            # points inserted in a shuffled order, simplices too: exercises the pivot search
            lines = implonly(build_lines('a', cx, route='faces', rnd=rnd))
            mx = max(len(s) for s in cx) - 1
            lines += ['sync a', 'q a Z -'] + ['q a snf %d' % k for k in range(mx + 2)] + ['check c07 a 5']
            scripts.append(lines)
        n = 40 if tier == 'quick' else 800
        for i in range(n):
            g = gen.Gen(rnd, pool=('int', 'mix', 'str', 'tup')[i % 4], bad=0.1, snap=False,
                        ops=dict(point=4, faces=5, basis=3, delete=2, restrict=0.5, subdiv=0.5, relabel1=0.5),
                        after=['sync a', 'q a Z -', 'q a snf 1', 'q a snf 2', 'check c07 a {seed}'])
            for j in range(rnd.randint(6, 16)):
                g.step()
            scripts.append(implonly(g.lines)); merge_stats(stats, g.stats)
        return scripts, {'op_mix': stats, 'generator': '%d small complexes by faces in shuffled order, the zoo, histories with Z()/smithNormalForm queried after every step' % len(cxs)}

# ================================================================ C10
@prop('C10')
class C10(Prop):
    def workload(self, tier, rnd):
        scripts = []; stats = {}
        N = 3 if tier == 'quick' else 4
        cxs = complexes(N)
        pairs = [(a, b) for a in cxs for b in cxs]
        if len(pairs) > 6000:
            pairs = rnd.sample(pairs, 6000)
        ops = ['le', 'lt', 'ge', 'gt', 'eq', 'ne']
        # several pairs per script to keep the number of processes down
        chunk = 12
        for i in range(0, len(pairs), chunk):
            lines = []
            for (ca, cb) in pairs[i:i + chunk]:
                nm = scheme_names(N, 'int', sorted(set(ca) | set(cb)))
                lines += implonly(build_lines('a', ca, names=nm, route='faces', rnd=rnd))
                lines += implonly(build_lines('b', cb, names=nm, route='faces', rnd=rnd))
                lines += ['sync a', 'sync b'] + ['q a cmp %s b' % o for o in ops] + ['check c10 a b']
            scripts.append(lines)
        # pairs sharing names but differing in order or faces; copies; deletions; rejected calls before comparing
        n = 40 if tier == 'quick' else 800
        for i in range(n):
            g = gen.Gen(rnd, pool=('int', 'mix', 'str')[i % 3], bad=0.3, snap=False)
            for _ in range(rnd.randint(4, 14)):
                g.step()
            lines = list(g.lines)
            lines.append('copy b a')
            lines += ['echo --', 'check c10 a b', 'check c10 b a']
            c = g.c(); ss = c.simplices()
            r = rnd.random()
            if ss and r < 0.35:
                lines.append('del b %s' % tok(rnd.choice(ss)))
            elif ss and r < 0.55:
                # same names, different structure: swap the names of two simplices of one order
                k = rnd.randint(0, c.maxOrder()); l = c.simplicesOfOrder(k)
                if len(l) >= 2:
                    x, y = rnd.sample(l, 2)
                    lines += ['relabel1 b %s sTMP' % tok(x), 'relabel1 b %s %s' % (tok(y), tok(x)), 'relabel1 b sTMP %s' % tok(y)]
            elif r < 0.75:
                lines.append('add b [ ] sNEWPOINT -')
            elif ss:
                lines.append('add b [ ] %s -' % tok(rnd.choice(ss)))       # rejected: duplicate name
                lines.append('add a [ %s ] sx -' % tok(rnd.choice(ss)))     # rejected: one face
            lines = implonly(lines) + ['sync a', 'sync b'] + ['q a cmp %s b' % o for o in ops] + ['q b cmp %s a' % o for o in ops[:3]]
            lines += ['check c10 a b', 'check c10 b a', 'check c10 a a']
            scripts.append(lines); merge_stats(stats, g.stats)
        return scripts, {'op_mix': stats, 'exhaustive': len(pairs) == len(cxs) ** 2,
                         'generator': 'all %d ordered pairs of complexes on <= %d points with names tied to bases (6 operators each) + histories compared with mutated copies and after rejected calls' % (len(pairs), N)}

# ================================================================ C08 / C09
READONLY = ['q {v} betti -', 'q {v} betti [ 0 2 1 ]', 'q {v} snf 1', 'q {v} snf 2', 'q {v} Z -', 'q {v} Z [ 1 ]', 'q {v} euler',
            'q {v} integrate sheight 0', 'q {v} integrate sheight 2', 'q {v} cmp le {u}', 'q {v} cmp eq {u}', 'q {v} cmp lt {u}',
            'json {n} {v}', 'copy {n} {v}', 'deepcopy {n} {v}', 'compose {n} {v} {u}', 'flag {n} {v}', 'q {v} bop 1',
            'q {v} counts', 'q {v} total', 'q {v} simplices 1', 'q {v} maxorder']

def small_world(rnd, g_lines=None):
    """two complexes a, u with attributes (some missing), in-contract"""
    lines = []
    shape = rnd.random()
    for v, pool in (('a', 'int5'), ('u', 'str5')):
        if shape < 0.12:          # degenerate: points only, or nothing at all
            ops = dict(point=1); steps = rnd.randint(0, 3)
        else:
            ops = dict(point=3, faces=3, basis=4, delete=1, subdiv=0.3); steps = rnd.randint(4, 10)
        g = gen.Gen(rnd, pool=pool, bad=0.05, snap=False, var=v, ops=ops, max_points=5)
        for _ in range(steps):
            g.step()
        lines += g.lines
        for s in g.c().simplicesOfOrder(0) if g.c().maxOrder() >= 0 else []:
            if rnd.random() < 0.6:
                lines.append('setattr %s %s sheight i%d' % (v, tok(s), rnd.randint(0, 3)))
    return lines

@prop('C08')
class C08(Prop):
    def workload(self, tier, rnd):
        scripts = []; stats = {}
        n = 60 if tier == 'quick' else 1500
        for i in range(n):
            lines = small_world(rnd)
            k = 0
            calls = rnd.sample(READONLY, 8) if tier == 'quick' else list(READONLY)
            rnd.shuffle(calls)
            for q in calls:
                v, u = rnd.choice([('a', 'u'), ('u', 'a'), ('a', 'a')])
                k += 1
                line = q.format(v=v, u=u, n='n%d' % k)
                if line.startswith('copy '): line += ' ?'
                if line.startswith('compose') and v == u: continue
                lines += ['check save-all', line, 'check unchanged-all']
            if i % 3 == 0:
                # operands that share simplices, with dictionary- and list-valued attributes under the same keys
                # on both sides: composing must leave both operands' values (and what they contain) alone
                lines += ['copy t a ?']
                pts_a = [l.split()[4] for l in lines if l.startswith('add a [ ]') and l.split()[4] != '-'][:4]
                for p_ in pts_a:
                    for v_ in ('a', 't'):
                        if rnd.random() < 0.8:
                            val = rnd.choice([{'p': rnd.randint(0, 3)}, {'q': [rnd.randint(0, 3)], 'r': {'s': 1}}, [rnd.randint(0, 3)]])
                            lines.append('setattr %s %s %s %s' % (v_, p_, rnd.choice(['snest', 'sheight']), impl.aval_tok(val)))
                lines += ['check save-all', 'compose nt a t', 'check unchanged-all',
                          'check save-all', 'compose nu t a', 'check unchanged-all']
            # an embedding and its Vietoris-Rips complex
            lines += [rnd.choice(['emb e a 2', 'embp e a 2'])]
            pts = [l.split()[4] for l in lines if l.startswith('add a [ ]') and l.split()[4] != '-'][:4]
            for p in pts:
                lines.append('pos e %s [ %s %s ]' % (p, float(rnd.randint(0, 3)).hex(), float(rnd.randint(0, 3)).hex()))
            lines += ['check save-all', 'vr w e %s ?' % float(rnd.choice([0, 1, 2, 5])).hex(), 'check unchanged-all']
            scripts.append(lines)
        # filtrations: snap, copy, complexes (to the end and abandoned part-way), queries
        m = 40 if tier == 'quick' else 800
        from harness.props3 import filtration_history
        for i in range(m):
            lines, st = filtration_history(rnd, rnd.randint(6, 16), checks=False)
            merge_stats(stats, st)
            nidx = 4
            # heights on the points (so that the Euler integral has levels to cut)
            w_ = impl.ImplWorld()
            for l in lines: w_.exec(l)
            f_ = w_.vars.get('f')
            if f_ is not None:
                for p_ in [x for x in impl.SimplicialComplex.simplices(f_) if impl.SimplicialComplex.orderOf(f_, x) == 0]:
                    if rnd.random() < 0.8:
                        lines.append('! setattr f %s sheight i%d' % (tok(p_), rnd.randint(1, 3)))
            for q in ['snapf s1 f', 'copy g f ?', 'complexes f p', '! complexes-partial f 1', '! complexes-partial f 2',
                      'json j f', 'q f euler', 'q f counts', 'q f betti -', 'q f Z -', '! flag fl f', '! q f cmp le f',
                      '! q f integrate sheight 0', '! q f integrate sheight 2', '! deepcopy fd f']:
                lines += ['check save-all', q, 'check unchanged-all']
            # a copy into a filtration that already uses a name born late in f: the copy is rejected when it gets there --
            # the source must be where and what it was (the target, half filled, is the caller's problem)
            if f_ is not None and len(list(f_.indices())) >= 2:
                late = [x for x in f_.simplicesAddedAtIndex(list(f_.indices())[-1]) if impl.SimplicialComplex.orderOf(f_, x) == 0]
                if late:
                    lines += ['! newf t q0', '! add t [ ] %s -' % tok(rnd.choice(late)), 'check save f', '! copyinto f t', 'check unchanged f', 'q f getindex']
            # two filtrations (g: a copy that then gets an index of its own) iterated in step
            lines += ['! setindex g q%d' % rnd.choice([1, 3, 12, -8]), '! add g [ ] sGONLY -', 'check save-all', '! zipiter f g', 'check unchanged-all',
                      'q f indices 0', 'q f getindex']
            if i % 2:
                # an iteration taken one step at a time, the caller moving the index in between
                from harness.props3 import stepped_iteration
                lines += stepped_iteration(rnd, lines, 'c08')
            scripts.append(lines)
        return scripts, {'op_mix': stats, 'generator': 'random two-complex worlds with attributes x %d read-only / constructor calls each in random order; filtrations x snap/copy/complexes (complete and abandoned iteration)/queries' % len(READONLY)}

MUTATIONS = ['add {v} [ ] sNEW1 -', 'addb {v} [ sNEW1 sNEW2 ] - -', 'del {v} {s}', 'setattr {v} {s} sk i7', 'relabel1 {v} {s} sREN',
             'restrict {v} [ {p} ]', 'addb {v} [ {p} sNEW3 ] - {{ sk i1 }}', 'setattr {v} {p} sheight i9']

@prop('C09')
class C09(Prop):
    def workload(self, tier, rnd):
        scripts = []; stats = {}
        ctors = ['copy n a ?', 'deepcopy n a', 'compose n a u', 'flag n a', 'json n a']
        n = 60 if tier == 'quick' else 1500
        for i in range(n):
            lines = small_world(rnd)
            ctor = ctors[i % len(ctors)]
            lines.append(ctor)
            api = ctor.split()[0]
            lines.append('check fresh n ' + api)
            if api in ('copy', 'deepcopy', 'json'):
                lines.append('check same-content n a ' + api)
            # follow-up mutations on either side; the other side must not move
            for j in range(rnd.randint(2, 5)):
                side, other = rnd.choice([('n', 'a'), ('a', 'n'), ('n', 'u'), ('u', 'n')])
                lines += ['check save %s' % other, 'MUT %s' % side, 'check unchanged %s' % other]
            scripts.append(lines)
        # the target variants: copy(t) / compose(u, t) into a target that holds nothing (new, or emptied) -- the caller's
        # object is what gets filled -- or something unrelated
        for i in range(15 if tier == 'quick' else 300):
            lines = small_world(rnd)
            pre = [['new t'], ['new t', 'add t [ ] sGONE -', 'del t sGONE'], ['new t', 'add t [ ] sUNRELATED -', 'setattr t sUNRELATED sz i1']][i % 3]
            if i % 2:
                lines += pre + ['copyinto a t', 'check fresh t copy']
                if i % 3 != 2:
                    lines.append('check same-content t a copy')
            else:
                lines += pre + ['composeinto a u t', 'check fresh t compose']
            for j in range(rnd.randint(1, 3)):
                side, other = rnd.choice([('t', 'a'), ('a', 't'), ('t', 'u'), ('u', 't')])
                lines += ['check save %s' % other, 'MUT %s' % side, 'check unchanged %s' % other]
            scripts.append(lines)
        for i in range(20 if tier == 'quick' else 400):
            lines = small_world(rnd)
            pts = [l.split()[4] for l in lines if l.startswith('add a [ ]') and l.split()[4] != '-'][:5]
            if len(pts) < 2:
                continue
            mt = rnd.choice([None, None, 'wrap', 'half', 'manhattan'])
            lines += ['embm e a 2 %s' % mt if mt else rnd.choice(['emb e a 2', 'embp e a 2'])]
            P = lambda: '[ %s %s ]' % (float(rnd.randint(0, 3)).hex(), float(rnd.randint(0, 3)).hex())
            for x in pts:
                lines.append('pos e %s %s' % (x, P()))
            eps = float(rnd.choice([1, 2, 3])).hex()
            lines += ['vr n e %s ?' % eps, 'snap n', 'check fresh n vietorisRips', 'check c12 n e %s' % eps]
            lines += ['check save a', 'MUT n', 'check unchanged a', 'check save n', 'MUT a', 'check unchanged n']
            for x in rnd.sample(pts, rnd.randint(1, len(pts))):
                lines.append('pos e %s %s' % (x, P()))
            lines += ['vr m e %s ?' % eps, 'snap m', 'check fresh m vietorisRips', 'check c12 m e %s' % eps]
            scripts.append(lines)
        # resolve MUT placeholders against a live run
        out = []
        from harness import impl
        for lines in scripts:
            w = impl.ImplWorld(); res = []
            for l in lines:
                if l.startswith('MUT '):
                    v = l.split()[1]; c = w.vars.get(v)
                    if c is None:
                        continue
                    ss = c.simplices(); pts = c.simplicesOfOrder(0) if c.maxOrder() >= 0 else []
                    cand = [m for m in MUTATIONS if ('{s}' not in m or ss) and ('{p}' not in m or pts)]
                    m = rnd.choice(cand)
                    l = m.format(v=v, s=tok(rnd.choice(ss)) if ss else '', p=tok(rnd.choice(pts)) if pts else '')
                res.append(l); w.exec(l)
            out.append(res)
        scripts = out
        from harness.props3 import filtration_history
        m = 40 if tier == 'quick' else 800
        for i in range(m):
            lines, st = filtration_history(rnd, rnd.randint(6, 14), checks=False, attrs=True)
            merge_stats(stats, st)
            which = i % 3
            if which == 0:
                lines += ['copy g f ?', 'check fresh g Filtration.copy', 'check same-content g f Filtration.copy']
                new = 'g'
            elif which == 1:
                lines += ['snapf g f', 'check fresh g snap']
                new = 'g'
            else:
                lines += ['complexes f p', 'check fresh p0 complexes']
                new = 'p0'
                if i % 2:
                    # the same iteration taken step by step, earlier results edited in between
                    from harness.props3 import stepped_iteration
                    lines += stepped_iteration(rnd, lines, 'c09')
            lines += ['check save f', 'add %s [ ] sNEWP -' % new, 'check unchanged f',
                      'check save %s' % new, 'add f [ ] sNEWQ { sk i3 }', 'check unchanged %s' % new]
            # copy.deepcopy of the filtration itself, from wherever the index stands and from a non-minimal index
            lines += ['! setattr f sNEWQ snested s%5B1%2C2%5D', 'check deepcopy-filt f', '! max f', 'check deepcopy-filt f']
            scripts.append(lines)
        return scripts, {'op_mix': stats, 'generator': 'two-complex worlds with attributes; each copy-like constructor followed by structural and in-place attribute mutations on either side'}

# ================================================================ C11 / C12
@prop('C11')
class C11(Prop):
    def workload(self, tier, rnd):
        scripts = []; stats = {}
        N = 4 if tier == 'quick' else 5
        cxs = complexes(N)
        if tier == 'quick':
            cxs = cxs[::2]
        elif len(cxs) > 2500:
            cxs = cxs[:167] + rnd.sample(cxs[167:], 2000)
        for ci, cx in enumerate(cxs):
            scheme = ('int', 'str', 'tup', 'mix')[ci % 4]
            nm = scheme_names(N, scheme, cx)
            lines = build_lines('a', cx, names=nm, route='faces', rnd=rnd)
            lines += ['flag w a', 'snap w', 'check c11 w a', 'flag x w', 'check samefam x w flagComplex-idempotent']
            scripts.append(lines)
        if tier != 'quick':
            # a hub with 130 spokes and a few rim edges (implementation and oracle only: the combinations are too many
            # for the extracted model): counters of cofaces beyond 127
            lines = ['! new a', '! add a [ ] sHUB -'] + ['! add a [ ] i%d -' % k for k in range(130)] + \
                    ['! add a [ sHUB i%d ] - -' % k for k in range(130)] + ['! add a [ i%d i%d ] - -' % (k, k + 1) for k in (0, 1, 2, 50, 128)]
            scripts.append(lines + ['! flag w a', 'check c11 w a'])
        # hollow spheres and random graphs on 6-7 points
        for k in (2, 3):
            lines = ['gen void a %d - -' % k, 'flag w a', 'snap w', 'check c11 w a']
            scripts.append(lines)
        n = 10 if tier == 'quick' else 250
        for i in range(n):
            npts = rnd.randint(5, 7)
            edges = [e for e in itertools.combinations(range(npts), 2) if rnd.random() < 0.55]
            cx = _closure([(p,) for p in range(npts)] + edges)
            nm_ = {}
            if i % 2 == 0:
                # falsy names (0, '', ()) on edges -- and, when there are triangles in the source, on one of them
                hi_ = [s_ for s_ in cx if len(s_) >= 2]; rnd.shuffle(hi_)
                for s_, n_ in zip(hi_, [0, '', ()]):
                    nm_[s_] = n_
            lines = build_lines('a', cx, names=nm_, route='faces', rnd=rnd) + ['flag w a', 'check c11 w a']
            # grow: add edges to the flag complex, grow, compare with the rebuild
            missing = [e for e in itertools.combinations(range(npts), 2) if e not in edges]
            rnd.shuffle(missing)
            for bi, batch in enumerate((missing[:1], missing[1:3], missing[3:6])):
                if not batch: continue
                names = []
                for (p, q) in batch:
                    nme = 'sE%d_%d' % (p, q); names.append(nme)
                    lines.append('add w [ i%d i%d ] %s -' % (p + 1, q + 1, nme))
                    lines.append('add a [ i%d i%d ] %s -' % (p + 1, q + 1, nme))
                if bi == 0 and i % 3 == 0:
                    # a new point among the new simplices (points have no effect on a flag complex)
                    lines += ['add w [ ] sNEWPT%d -' % i, 'add a [ ] sNEWPT%d -' % i]
                    names = ['sNEWPT%d' % i] + names
                lines += ['grow w [ %s ]' % ' '.join(names), 'flag r a', 'check samefam w r growFlagComplex-vs-rebuild', 'check c11 r a']
            scripts.append(lines)
        return scripts, {'exhaustive': False, 'generator': '%d complexes on <= %d points (not only graphs) + hollow spheres + random graphs on 5-7 points with edge batches of size 1-3 grown and rebuilt' % (len(cxs), N)}

@prop('C12')
class C12(Prop):
    def workload(self, tier, rnd):
        scripts = []
        n = 120 if tier == 'quick' else 1200
        for i in range(n):
            # (thorough: 7 points only now and then -- the full simplex on 7 points has 127 simplices
            # and each of the up to 20 radii of a script builds its flag complex from scratch)
            dim = rnd.randint(1, 3); npts = rnd.randint(2, 6 if (tier == 'quick' or i % 10) else 7)
            kind = i % 6
            if kind == 5:      # far from the origin, close together (timestamps; planar points offset by 1e9): exact small distances
                off = [rnd.choice([1.0e9, 1.7e9, -3.0e9, 2.0 ** 40]) for _ in range(dim)]
                pts = [[o + rnd.randint(0, 4) + 0.25 * rnd.randint(0, 3) for o in off] for _ in range(npts)]
            elif kind == 4:      # tenths on a line: every eps a tie, sums and differences round
                dim = 1
                pts = [[x / 10.0] for x in rnd.sample(range(0, 30), npts)]
            elif kind == 0:      # integer grid: exact distances, ties
                pts = [[float(rnd.randint(0, 4)) for _ in range(dim)] for _ in range(npts)]
            elif kind == 1:    # collinear / coincident
                base = [float(rnd.randint(0, 3)) for _ in range(dim)]
                pts = [[b * rnd.randint(0, 3) for b in base] for _ in range(npts)]
            elif kind == 2:    # decimal fractions: inexact arithmetic, ties at computed distances
                pts = [[rnd.randint(0, 12) / 10.0 for _ in range(dim)] for _ in range(npts)]
            else:
                pts = [[rnd.uniform(-2, 2) for _ in range(dim)] for _ in range(npts)]
            metric = rnd.choice([None, None, None, 'manhattan', 'chebyshev', 'half', 'wrap'])
            names = rnd.sample([1, 2, 3, 4, 5, 6, 7, 'a', 'b', (1, 2)], npts)
            embl = ('embm e p %d %s' % (dim, metric)) if metric else ('emb e p %d' if i % 2 else 'embp e p %d') % dim
            if i % 4 == 3:
                # the embedding is created first, on the still empty complex (an empty complex is falsy in Python)
                lines = ['new p', embl] + ['add p [ ] %s -' % tok(x) for x in names]
            else:
                lines = ['new p'] + ['add p [ ] %s -' % tok(x) for x in names] + [embl]
            for x, p in zip(names, pts):
                lines.append('pos e %s [ %s ]' % (tok(x), ' '.join(c.hex() for c in p)))
            from harness.oracles3 import own_distance
            ds = sorted({own_distance(metric, p, q) for p, q in itertools.combinations(pts, 2)})
            eps_list = [-1.0, 0.0]
            for d in ds[:3] + rnd.sample(ds, min(3, len(ds))) + ds[-1:]:
                eps_list += [d, math.nextafter(d, -math.inf), math.nextafter(d, math.inf)]
            eps_list.append((ds[-1] if ds else 0.0) + 1.0)
            eps_list = sorted(set(eps_list))
            if tier == 'quick' and len(eps_list) > 6:
                eps_list = sorted(rnd.sample(eps_list, 6))
            prev = None
            for k, eps in enumerate(eps_list):
                w = 'w%d' % k
                lines += ['vr %s e %s ?' % (w, eps.hex()), 'snap ' + w, 'check c12 %s e %s' % (w, eps.hex())]
                if prev is not None:
                    lines.append('check subfam %s %s vietorisRips' % (prev, w))
                prev = w
            if i % 2:
                # the same embedding used again after its points moved (and one was added): nothing
                # remembered from the first round may survive
                moved = rnd.sample(list(zip(names, pts)), rnd.randint(1, min(3, npts)))
                if rnd.random() < 0.3:
                    lines.append('clear e')
                    moved = list(zip(names, pts))
                for x, p in moved:
                    q = [float(rnd.randint(0, 4)) if rnd.random() < 0.5 else c for c in p]
                    if rnd.random() < 0.5:
                        q = list(rnd.choice(pts))          # onto another point's position
                    lines.append('pos e %s [ %s ]' % (tok(x), ' '.join(float(c).hex() for c in q)))
                if rnd.random() < 0.4:
                    lines += ['add p [ ] sLATE -', 'pos e sLATE [ %s ]' % ' '.join(float(c).hex() for c in rnd.choice(pts))]
                elif rnd.random() < 0.5:
                    # a positioned point goes, a point nobody positioned comes: as many points as remembered positions
                    lines += ['del p %s' % tok(rnd.choice(names)), 'add p [ ] sUNPLACED -']
                for k, eps in enumerate(rnd.sample(eps_list, min(3, len(eps_list)))):
                    w = 'x%d' % k
                    lines += ['vr %s e %s ?' % (w, eps.hex()), 'snap ' + w, 'check c12 %s e %s' % (w, eps.hex())]
            scripts.append(lines)
        # an embedding whose positions are computed on demand by a subclass, asked for a complex before anyone read a position
        for k in range(6 if tier == 'quick' else 60):
            while True:
                r_, c_ = rnd.randint(2, 3), rnd.randint(1, 3)
                h_, w_ = rnd.choice([1.0, 2.0, 3.0]), rnd.choice([1.0, 2.0, 4.0])
                e_ = rnd.choice([0.5, 1.0, 1.5, 2.5])
                # keep the cliques small: the library's sweep enumerates (k+1)-subsets of the (k-1)-simplices, which on
                # a clique of 7+ points runs out of memory on the unchanged tree (a cost, not a wrong answer)
                pos_ = [[(w_ / (2 * c_)) * (2 * j + (i % 2)), h_ - (h_ / r_) * i] for i in range(r_) for j in range(c_)]
                adj_ = [[math.dist(a_, b_) <= e_ * 1.001 for b_ in pos_] for a_ in pos_]
                big = any(all(adj_[x][y] for x in K for y in K) for K in itertools.combinations(range(len(pos_)), 6)) if len(pos_) >= 6 else False
                if not big:
                    break
            scripts.append(['check c12-lattice %d %d %s %s %s' % (r_, c_, h_.hex(), w_.hex(), e_.hex())])
        return scripts, {'generator': 'the same embedding used again after points moved, were added or all positions cleared; integer-grid, collinear/coincident, decimal and random point sets in 1-3 dimensions, 2-7 points, eps below/at/above pairwise distances (incl. negative and beyond the diameter), Euclidean/Manhattan/Chebyshev'}

# ================================================================ C15
@prop('C15')
class C15(Prop):
    def workload(self, tier, rnd):
        scripts = []; stats = {}
        n = 100 if tier == 'quick' else 2500
        for i in range(n):
            pool = ('int', 'mix', 'str', 'tup')[i % 4]
            ops = dict(point=3, faces=4, basis=4, delete=1, subdiv=0.5) if i % 5 else dict(point=1)
            g = gen.Gen(rnd, pool=pool, bad=0.05, snap=False, ops=ops)
            for _ in range(rnd.randint(4, 12) if i % 5 else rnd.randint(1, 4)):
                g.step()
            lines = list(g.lines)
            c = g.c(); ss = c.simplices()
            for j in range(3):
                w = gen.impl.ImplWorld()
                for l in lines: w.exec(l)
                c = w.vars['a']; ss = c.simplices()
                free = [x for x in gen.POOLS[pool] + [0, '', (), ('n', 1), ('n', 2), 777, 'fresh'] if x not in c]
                free = list(dict.fromkeys(map(lambda x: (tok(x), x), free)).values()) if False else free
                r = rnd.random()
                if r < 0.45 and ss:
                    chosen = rnd.sample(ss, rnd.randint(1, min(len(ss), 4)))
                    m = []
                    used = set()
                    for s in chosen:
                        cand = [x for x in free if tok(x) not in used]
                        if rnd.random() < 0.15:
                            m += [s, s]                                  # identity on some
                        elif cand:
                            x = rnd.choice(cand); used.add(tok(x)); m += [s, x]
                    if rnd.random() < 0.2 and free:
                        m += [rnd.choice(free), 424242]                    # mentions a name that is not in the complex
                    req = 'relabel a map %s' % list_s(m)
                elif r < 0.55 and len(ss) >= 2:
                    x, y = rnd.sample(ss, 2)                               # a chain / swap: known finding when rejected
                    req = 'relabel a map %s' % list_s([x, y, y, rnd.choice(free) if free else 999])
                elif r < 0.7:
                    req = 'relabel a tup %d' % rnd.randint(0, 3)
                elif r < 0.8:
                    req = 'relabel a count %d' % rnd.choice([0, 500, 1000])
                elif r < 0.9 and ss:
                    req = 'relabel1 a %s %s' % (tok(rnd.choice(ss)), tok(rnd.choice(free)) if free else 'i999')
                else:
                    # relabelDisjointFrom a second complex that shares some names, at any order
                    # (also orders above our own maximum)
                    other = ['new o']
                    pool_names = [tok(x) for x in ss] + [tok(x) for x in free[:4]]
                    rnd.shuffle(pool_names)
                    pool_names = list(dict.fromkeys(pool_names))
                    k = min(len(pool_names), rnd.choice([1, 2, 3, 4, 5, 7]))
                    nms = pool_names[:k]
                    if k >= 7:
                        p0, p1, p2, e0, e1, e2, t0 = nms[:7]
                        other += ['add o [ ] %s -' % x for x in (p0, p1, p2)]
                        other += ['add o [ %s %s ] %s -' % (p0, p1, e0), 'add o [ %s %s ] %s -' % (p0, p2, e1), 'add o [ %s %s ] %s -' % (p1, p2, e2)]
                        other += ['add o [ %s %s %s ] %s -' % (e0, e1, e2, t0)]
                    elif k >= 3:
                        other += ['add o [ ] %s -' % x for x in nms[:2]] + ['add o [ %s %s ] %s -' % (nms[0], nms[1], nms[2])]
                        other += ['add o [ ] %s -' % x for x in nms[3:]]
                    else:
                        other += ['add o [ ] %s -' % x for x in nms]
                    if nms and rnd.random() < 0.35:
                        # the other complex also uses a name that looks like the decoration of a shared one
                        ords_ = {}
                        for l_ in other[1:]:
                            t_ = l_.split(); ords_[t_[-2]] = max(0, len(t_) - 7)
                        x_ = rnd.choice(nms)
                        look = '%s->%dd1' % (impl.parse_name(x_), ords_.get(x_, 0))
                        if tok(look) not in pool_names:
                            other.append('add o [ ] %s -' % tok(look))
                    if rnd.random() < 0.3:
                        # the other complex holds generated names of its own (more of them than we have generated)
                        other += ['add o [ ] - -'] * rnd.randint(3, 7)
                    lines += other
                    req = 'relabeldisj a o'
                lines += ['check c15-pre a ' + req, req, 'check c15-post a', 'snap a']
            scripts.append(lines); merge_stats(stats, g.stats)
        return scripts, {'op_mix': stats, 'generator': 'complexes from short histories x renamings: partial/total dicts onto fresh names (incl. falsy and type-changing), identity-on-some, chains, functions (tuple-wrapping, counting from 0), single renames, relabelDisjointFrom against complexes sharing names at equal and higher orders'}

# ================================================================ C16
@prop('C16')
class C16(Prop):
    def workload(self, tier, rnd):
        scripts = []
        N = 3 if tier == 'quick' else 4
        cxs = complexes(N)
        pairs = [(a, b) for a in cxs for b in cxs]
        if tier == 'quick':
            pairs = rnd.sample(pairs, 150)
        elif len(pairs) > 5000:
            pairs = rnd.sample(pairs, 5000)
        for pi, (ca, cb) in enumerate(pairs):
            nm = scheme_names(N, ('int', 'str')[pi % 2], sorted(set(ca) | set(cb)))
            la = build_lines('a', ca, names=nm, route='faces', rnd=rnd)
            nmb = dict(nm)
            r = rnd.random()
            S = [s for s in cb]
            if S and r < 0.4:
                # single-name perturbation: one simplex of b takes the name another vertex set has in a
                both = [s for s in cb if s in ca and len(s) > 1]
                s = rnd.choice(both) if both and rnd.random() < 0.7 else rnd.choice(S)
                others = [t for t in ca if len(t) == len(s) and t != s]
                if others:
                    t = rnd.choice(others)
                    key = lambda u: u if len(u) > 1 else u[0]
                    nmb[key(s)] = nm.get(key(t), t[0] + 1 if len(t) == 1 else None)
            elif S and r < 0.55:
                s = rnd.choice(S)
                key = s if len(s) > 1 else s[0]
                nmb[key] = 'PERT' if pi % 2 else 4242          # single-basis perturbation: same set, new name
            lb = build_lines('b', cb, names=nmb, route='faces', rnd=rnd)
            lines = la + lb
            # attributes on shared and unshared simplices
            for v, ls in (('a', la), ('b', lb)):
                for l in ls:
                    if l.startswith('add ') and rnd.random() < 0.3:
                        lines.append('setattr %s %s %s i%d' % (v, l.split()[-2], rnd.choice(['sx', 'sy']), rnd.randint(0, 9)))
                    elif l.startswith('add ') and rnd.random() < 0.35:
                        # values that are themselves dictionaries / lists (the merge replaces a value, it never blends two)
                        val = rnd.choice([{'p': rnd.randint(0, 3)}, {'q': [rnd.randint(0, 3)], 'r': {'s': 1}}, [rnd.randint(0, 3)]])
                        lines.append('setattr %s %s %s %s' % (v, l.split()[-2], rnd.choice(['sx', 'sn']), impl.aval_tok(val)))
            if pi % 10 == 9:
                # a target that holds nothing (yet / any more)
                pre = ['new d'] if pi % 20 == 9 else ['new d', 'add d [ ] sGONE -', 'del d sGONE']
                lines += pre + ['check c16-pre a b d', 'composeinto a b d', 'check c16-post a b d', 'snap d']
            elif pi % 5 == 4:
                lines += ['new d', 'add d [ ] sUNRELATED { sz i1 }', 'check c16-pre a b d', 'composeinto a b d', 'check c16-post a b d', 'snap d']
            else:
                lines += ['check c16-pre a b', 'compose r a b', 'check c16-post a b r', 'snap r']
            scripts.append(lines)
        # operands with a history (lookups, deletions, re-adds) before composing
        n = 25 if tier == 'quick' else 500
        for i in range(n):
            lines = small_world(rnd)
            lines = [l.replace(' u ', ' b ').replace('new u', 'new b') for l in lines]
            lines += ['check c16-pre a b', 'compose r a b', 'check c16-post a b r', 'copy b2 a ?', 'check c16-pre a b2', 'compose r2 a b2', 'check c16-post a b2 r2']
            scripts.append(lines)
        # operands that share a past: b starts as a copy of a, both are edited further (deleted
        # names re-used on other bases, points renamed and the old names re-introduced), with
        # compositions in between
        n = 150 if tier == 'quick' else 2500
        for i in range(n):
            g = gen.Gen(rnd, pool=('int5', 'str5')[i % 2], bad=0.05, snap=False, var='a', max_points=5,
                        ops=dict(point=3, faces=3, basis=5, delete=2, relabel1=2, delb=0.5, dupbasis=0.5))
            for _ in range(rnd.randint(3, 7)):
                g.step()
            g.emit('copy b a ?', snap=False)
            for rnd_ in range(rnd.randint(1, 3)):
                for _ in range(rnd.randint(1, 5)):
                    g.var = rnd.choice(['a', 'a', 'b'])
                    g.step()
                r = 'r%d' % rnd_
                for l in ['check c16-pre a b', 'compose %s a b' % r, 'check c16-post a b %s' % r, 'snap ' + r]:
                    g.emit(l, snap=False)
            scripts.append(g.lines)
        return scripts, {'exhaustive': False, 'generator': 'operands sharing a past (copy, then deletions / re-used names / renamed points on both sides, compositions in between); %d ordered pairs of complexes on <= %d points (names tied to bases) incl. single-name and single-basis perturbations, attributes on shared/unshared simplices, with and without target; operands with histories' % (len(pairs), N)}

# ================================================================ C17
@prop('C17')
class C17(Prop):
    def workload(self, tier, rnd):
        scripts = []; stats = {}
        N = 4 if tier == 'quick' else 5
        cxs = complexes(N)
        if tier == 'quick': cxs = cxs[::2]
        elif len(cxs) > 2500: cxs = cxs[:167] + rnd.sample(cxs[167:], 2000)
        VALS = ['i3', 's%22z%22', 's%5B1%2C2%5D', 's%7B%22k%22%3A%7B%7D%7D', 's%22%5Cu00e9%22', 'snull', 'strue', 's1.5', 's%5B%5D',
                # attribute values that look like (parts of) an encoded complex but carry no marker: plain JSON data
                's%7B%22simplices%22%3A%5B%5D%7D',
                's%7B%22__version__%22%3A%220.1%22%2C%22simplices%22%3A%5B%7B%22attributes%22%3A%7B%7D%2C%22faces%22%3A%5B%5D%2C%22id%22%3A1%7D%5D%7D']
        for ci, cx in enumerate(cxs):
            scheme = ('int', 'str', 'jmix')[ci % 3]
            if scheme == 'jmix':
                nm = {0: 1, 1: '1', 2: 'b', 3: 2, 4: ''}
                for s in cx:
                    if len(s) > 1:
                        nm[s] = ''.join(str(p) for p in s) if len(s) % 2 else int('9' + ''.join(str(p) for p in s))
            else:
                nm = scheme_names(N, scheme, cx)
            lines = build_lines('a', cx, names=nm, route='faces' if ci % 2 else 'basis', rnd=rnd)
            for l in list(lines):
                if l.startswith('add a') and rnd.random() < 0.4:
                    lines.append('setattr a %s %s %s' % (l.split()[-2], rnd.choice(['sk', 's', 's%C3%A9']), rnd.choice(VALS)))
            lines += ['json d a', 'snap d', 'check c17 a 1', 'check fresh d json']
            scripts.append(lines)
        n = 30 if tier == 'quick' else 600
        for i in range(n):
            g = gen.Gen(rnd, pool=('int', 'str')[i % 2], bad=0.1, snap=False)
            for _ in range(rnd.randint(5, 16)):
                g.step()
            scripts.append(g.lines + ['json d a', 'snap d', 'check c17 a 2']); merge_stats(stats, g.stats)
        from harness.props3 import filtration_history
        for i in range(15 if tier == 'quick' else 300):
            lines, st = filtration_history(rnd, rnd.randint(6, 14), checks=False, pool=[1, 2, 'a', 'b', '1'])
            lines += ['json d f', 'snap d', 'check c17 f 3', 'min f', 'json d2 f', 'snap d2', 'check c17 f 4']
            scripts.append(lines)
        return scripts, {'op_mix': stats, 'generator': '%d small complexes with int/str/mixed (1 next to "1", empty string) names and nested/unicode/empty attribute values; histories; filtrations at several indices; text wrapped in other JSON' % len(cxs)}

# ================================================================ C18
@prop('C18')
class C18(Prop):
    def workload(self, tier, rnd):
        scripts = []
        K = 4 if tier == 'quick' else 6
        RN = 8 if tier == 'quick' else 12
        def call(v, g, n, id='-', attr='-'):
            l = 'gen %s %s %d %s %s' % (g, v, n, id, attr)
            return ['check c18-pre %s %s' % (v, l), l, 'check c18-post %s' % v]
        for k in range(0, K + 1):
            scripts.append(call('a', 'simplex', k) + ['snap a'])
            scripts.append(call('a', 'simplex', k, id=rnd.choice(['sTOP', 'i0', 's', 'i77']), attr='{ sk i%d }' % k))
            scripts.append(call('a', 'void', k))
            scripts.append(call('a', 'skeleton', k))
        for n in range(0, RN + 1):
            scripts.append(call('a', 'ring', n))
        # targets that exist but hold nothing: freshly made, or emptied by deletions
        for gk in ('simplex', 'void', 'skeleton', 'ring'):
            for pre in (['new a'], ['new a', 'add a [ ] sGONE -', 'del a sGONE']):
                nn = rnd.randint(3, 6) if gk == 'ring' else rnd.randint(0, 3)
                scripts.append(pre + call('a', gk, nn) + ['snap a'])
        # targets whose names are library-generated but sparse, in a copy (the copy numbers afresh):
        # generated names must step around the ones that are there
        for i in range(12 if tier == 'quick' else 200):
            g0 = rnd.choice(['ring', 'skeleton', 'simplex'])
            n0 = rnd.randint(4, 6) if g0 == 'ring' else rnd.randint(2, 3)
            lines = ['gen %s a %d - -' % (g0, n0)]
            w_ = impl.ImplWorld()
            for l in lines: w_.exec(l)
            pts0 = list(w_.vars['a'].simplicesOfOrder(0))
            for p_ in rnd.sample(pts0, rnd.randint(1, max(1, len(pts0) - 2))):
                lines.append('del a %s' % tok(p_))
            for p_ in [x for x in pts0 if ('del a %s' % tok(x)) not in lines][:2]:
                lines.append('setattr a %s sweight i%d' % (tok(p_), rnd.randint(1, 9)))
            lines.append('copy b a ?')
            for j in range(rnd.randint(1, 3)):
                gk = rnd.choice(['simplex', 'void', 'skeleton', 'ring'])
                nn = rnd.randint(3, 5) if gk == 'ring' else rnd.randint(0, 3)
                lines += call('b', gk, nn)
            lines += ['snap b', 'check wf b']
            scripts.append(lines)
        # a target in which a user name has the shape of a generated one and lies AHEAD of the names
        # handed out so far (it got there by renaming): the generator's fresh names must step around it
        for i in range(10 if tier == 'quick' else 150):
            d = rnd.randint(0, 4)
            lines = ['new a', 'add a [ ] - -', 'add a [ ] - -', 'add a [ ] sp { sw i7 }', 'add a [ s0d0 sp ] se -',
                     'relabel1 a sp s0d%d' % (2 + d)]
            for j in range(rnd.randint(1, 2)):
                gk = rnd.choice(['simplex', 'void', 'skeleton', 'ring'])
                nn = rnd.randint(3, 5) if gk == 'ring' else rnd.randint(1, 3)
                lines += call('a', gk, nn)
            lines += ['snap a', 'check wf a']
            scripts.append(lines)
        # calls without attributes, the earlier top simplex annotated in between
        for k in range(0, 4):
            lines = call('a', 'simplex', k, id='sT1') + ['setattr a sT1 scolour i1'] + call('a', 'simplex', rnd.randint(0, 3), id='sT2') + \
                    ['setattr a sT2 sshape i2'] + call('a', 'simplex', rnd.randint(0, 2)) + ['snap a', 'ids']
            lines += ['new b'] + call('b', 'simplex', k, id='sT3') + ['snap b', 'ids']
            scripts.append(lines)
        # onto targets made by earlier generator calls and by arbitrary histories
        m = 40 if tier == 'quick' else 900
        for i in range(m):
            if i % 2:
                g = gen.Gen(rnd, pool=('int', 'str', 'mix')[i % 3], bad=0.05, snap=False)
                for _ in range(rnd.randint(3, 10)):
                    g.step()
                lines = list(g.lines)
                for l in list(lines):
                    if l.startswith('add a') and rnd.random() < 0.3:
                        pass
            else:
                lines = []
            for j in range(rnd.randint(2, 4)):
                gk = rnd.choice(['simplex', 'void', 'skeleton', 'ring'])
                nn = rnd.randint(3, 7) if gk == 'ring' else rnd.randint(0, 3 if tier == 'quick' else 4)
                if gk == 'simplex' and rnd.random() < 0.5:
                    lines += call('a', gk, nn, id=rnd.choice(['sT%d' % j, 'i%d' % (900 + j), 'i0' if j == 0 else 's']), attr='{ sw i%d }' % j)
                else:
                    lines += call('a', gk, nn)
            lines.append('snap a')
            scripts.append(lines)
        R = 4 if tier == 'quick' else 6
        for r in range(1, R + 1):
            for c in range(1, R + 1):
                scripts.append(['lattice t %d %d' % (r, c), 'snap t', 'check c18-lattice t %d %d' % (r, c), 'q t betti -', 'q t euler'])
        return scripts, {'exhaustive': True, 'generator': 'every k <= %d (k_simplex, k_void, k_skeleton), ring(n) n <= %d, lattices up to %dx%d, on empty targets and on targets from earlier generator calls / random histories' % (K, RN, R, R)}

# ================================================================ C19
@prop('C19')
class C19(Prop):
    def workload(self, tier, rnd):
        scripts = []; stats = {}
        N = 3 if tier == 'quick' else 4
        cxs = complexes(N)
        cnt = 0
        for ci, cx in enumerate(cxs):
            pts = sorted({p for s in cx for p in s})
            assigns = list(itertools.product([0, 1, 2, 3, None], repeat=len(pts)))
            if tier == 'quick' and len(assigns) > 6:
                assigns = rnd.sample(assigns, 6)
            elif len(assigns) > 60:
                assigns = rnd.sample(assigns, 60)
            base = build_lines('a', cx, route='basis' if ci % 2 else 'faces', rnd=rnd)
            lines = list(base)
            for hs in assigns:
                lines.append('copy c a')
                for p, h in zip(pts, hs):
                    if h is not None:
                        lines.append('setattr c i%d sheight i%d' % (p + 1, h))
                hi = [s for s in cx if len(s) > 1]
                if hi and rnd.random() < 0.3:
                    # a height on a higher simplex too (only the points' heights enter the formula)
                    s_ = rnd.choice(hi)
                    if ci % 2 == 0:       # route 'faces': higher simplices carry the names build_lines gave them
                        lines.append('setattr c i%s sheight i%d' % (''.join(str(p + 1) for p in s_), rnd.randint(0, 5)))
                for d in (0, 2, 5)[:3 if rnd.random() < 0.5 else 2]:
                    lines += ['check save c', 'q c integrate sheight %d' % d, 'check unchanged c', 'check c19 c sheight %d' % d]
                    cnt += 1
                if pts and rnd.random() < 0.5:
                    # the same complex object and the same integrators again after heights changed
                    for p in rnd.sample(pts, rnd.randint(1, len(pts))):
                        lines.append('setattr c i%d sheight i%d' % (p + 1, rnd.randint(0, 4)))
                    for d in (0, 2):
                        lines += ['q c integrate sheight %d' % d, 'check c19 c sheight %d' % d]
                        cnt += 1
            lines += ['q a euler']
            scripts.append(lines)
        # the integral of a filtration is the integral of the complex at its current index
        from harness.props3 import filtration_history, INDEX_SET
        for i in range(10 if tier == 'quick' else 200):
            lines, st = filtration_history(rnd, rnd.randint(6, 14), checks=False, pool=[1, 2, 3, 4, 5])
            w_ = impl.ImplWorld()
            for l in lines: w_.exec(l)
            f_ = w_.vars['f']
            for p_ in [x for x in impl.SimplicialComplex.simplices(f_) if impl.SimplicialComplex.orderOf(f_, x) == 0]:
                if rnd.random() < 0.8:
                    lines.append('! setattr f %s sheight i%d' % (tok(p_), rnd.randint(0, 3)))
            for q_ in rnd.sample(INDEX_SET, 3):
                lines += ['! setindex f q%d' % q_, 'check c19 f sheight %d' % rnd.choice([0, 2])]
            scripts.append(lines)
        n = 20 if tier == 'quick' else 500
        for i in range(n):
            npts = rnd.randint(5, 7)
            faces = [tuple(sorted(rnd.sample(range(npts), rnd.randint(2, 4)))) for _ in range(rnd.randint(3, 8))]
            cx = _closure(faces + [(p,) for p in range(npts)])
            lines = build_lines('a', cx, route='basis', rnd=rnd)
            for p in range(npts):
                if rnd.random() < 0.8:
                    lines.append('setattr a i%d sheight i%d' % (p + 1, rnd.randint(0, 3)))
            d = rnd.choice([0, 1, 3])
            lines += ['check save a', 'q a integrate sheight %d' % d, 'check unchanged a', 'check c19 a sheight %d' % d, 'q a euler']
            scripts.append(lines)
        # large values on few points (and the same handed over as numpy.uint8 scalars, variant `exotic - - np`): sums
        # and level counts beyond 255
        for i in range(6 if tier == 'quick' else 120):
            k_ = rnd.randint(3, 6)
            lines = ['new a'] + ['add a [ ] i%d -' % (j + 1) for j in range(k_)]
            for _ in range(rnd.randint(0, 2)):
                a_, b_ = rnd.sample(range(k_), 2)
                lines.append('addb a [ i%d i%d ] - -' % (a_ + 1, b_ + 1))
            for j in range(k_):
                if rnd.random() < 0.9:
                    lines.append('setattr a i%d sheight i%d' % (j + 1, rnd.randint(20, 200)))
            d = rnd.choice([0, 7, 100])
            lines += ['check save a', 'q a integrate sheight %d' % d, 'check unchanged a', 'check c19 a sheight %d' % d]
            scripts.append(lines)
            scripts.append(['exotic - - np'] + lines)
        return scripts, {'exhaustive': tier != 'quick', 'integrations': cnt,
                         'generator': 'complexes on <= %d points x height assignments 0..3 / missing (defaults 0 and 2); random complexes on 5-7 points with defaults 0, 1, 3' % N}

# ================================================================ C20
@prop('C20')
class C20(Prop):
    def workload(self, tier, rnd):
        scripts = []
        n = 120 if tier == 'quick' else 2500
        for i in range(n):
            dim = rnd.randint(1, 4)
            lines = ['new a']
            names = rnd.sample([1, 2, 3, 4, 'a', 'b', (1, 2), 0.5], rnd.randint(1, 5))
            for x in names:
                lines.append('add a [ ] %s -' % tok(x))
            hi = []
            if len(names) >= 2:
                lines.append('add a [ %s %s ] sEDGE -' % (tok(names[0]), tok(names[1]))); hi.append('sEDGE')
            if len(names) >= 3:
                lines.append('addb a [ %s %s %s ] sTRI -' % tuple(tok(x) for x in names[:3])); hi.append('sTRI')
            lines += [('embp e a %d' if rnd.random() < 0.4 else 'emb e a %d') % dim, 'check c20-begin e']
            if i % 5 == 4:
                # the embedding first, on the still empty complex; the points afterwards
                lines = ['new a'] + lines[-2:] + lines[1:-2]
            allnames = [tok(x) for x in names] + hi + ['sMISSING']
            for j in range(rnd.randint(6, 16)):
                r = rnd.random()
                s = rnd.choice(allnames if rnd.random() < 0.3 else [tok(x) for x in names])
                if r < 0.3:
                    d = dim if rnd.random() < 0.8 else rnd.choice([x for x in (0, 1, 2, 3, 4, 5) if x != dim])
                    l = 'pos e %s [ %s ]' % (s, ' '.join(float(rnd.randint(-3, 3) + rnd.choice([0, 0.5])).hex() for _ in range(d)))
                elif r < 0.6:
                    l = 'getpos e %s' % s
                elif r < 0.7:
                    l = 'positions e -'
                elif r < 0.8:
                    l = 'clear e'
                elif r < 0.9:
                    l = 'len e'
                else:
                    l = 'in e %s' % s
                lines += [l, 'check c20 e']
                if rnd.random() < 0.1:
                    x = 'sLATE%d' % j
                    lines.append('add a [ ] %s -' % x); names.append(x); allnames.append(x)
            lines.append('calls e')
            p = [float(rnd.randint(-4, 4) + rnd.choice([0, 0.25, 0.1])) for _ in range(2 * dim)]
            lines.append('check c20-dist %d %s' % (dim, ' '.join(x.hex() for x in p)))
            scripts.append(lines)
        # pixel / grid coordinates: integers in the tens of thousands (as floats, and -- variant `exotic - - np` -- as
        # numpy.int32 scalars the way they come out of an array): differences fit 32 bits, their squares do not
        for i in range(8 if tier == 'quick' else 150):
            dim = rnd.randint(1, 3); k_ = rnd.randint(2, 4)
            pts_ = [[float(rnd.randint(-60000, 60000)) for _ in range(dim)] for _ in range(k_)]
            lines = ['new a'] + ['add a [ ] i%d -' % (j + 1) for j in range(k_)]
            lines += [('embp e a %d' if i % 2 else 'emb e a %d') % dim, 'check c20-begin e']
            for j, p_ in enumerate(pts_):
                lines += ['pos e i%d [ %s ]' % (j + 1, ' '.join(x.hex() for x in p_)), 'check c20 e', 'getpos e i%d' % (j + 1), 'check c20 e']
            for a_, b_ in itertools.combinations(range(k_), 2):
                lines.append('check c20-dist %d %s' % (dim, ' '.join(x.hex() for x in pts_[a_] + pts_[b_])))
            ds_ = sorted(math.dist(a_, b_) for a_, b_ in itertools.combinations(pts_, 2))
            for k2_, eps_ in enumerate([ds_[0], ds_[len(ds_) // 2], ds_[-1] + 1.0]):
                lines += ['vr w%d e %s ?' % (k2_, eps_.hex()), 'snap w%d' % k2_, 'check c12 w%d e %s' % (k2_, eps_.hex())]
            scripts.append(lines)
            scripts.append(['exotic - - np'] + lines)
        R = 4 if tier == 'quick' else 6
        for r in range(1, R + 1):
            for c in range(1, R + 1):
                for (h, wd) in ((1.0, 1.0), (2.0, 3.0), (0.5, 4.0), (3.25, 1.5)):
                    scripts.append(['check c20-lattice %d %d %s %s' % (r, c, h.hex(), wd.hex())])
        return scripts, {'exhaustive': False, 'generator': 'dimensions 1-4, random assign/read/clear/positionsOf/len/in sequences with wrong-dimension and higher-order requests, points added later; lattice embeddings up to %dx%d for 4 box sizes; Euclidean distance on dyadic and decimal points' % (R, R)}
