"""impl.py -- interpreter of the correspondence script language on the real library in /repo.

Prints, for every command, exactly the line(s) the OCaml driver prints for the model
(ocaml/driver.ml).  Some commands carry arguments that only the implementation run can
supply (Python set iteration orders, distances): `exec` returns the *annotated* line, with
those filled in, which is what the model is then run on.
"""
import sys, os, json, math, copy as _copy

REPO = os.environ.get('SIMPLICIAL_REPO', '/repo')
if sys.path[0] != REPO:
    sys.path.insert(0, REPO)
import simplicial
assert os.path.realpath(simplicial.__file__).startswith(os.path.realpath(REPO) + os.sep), simplicial.__file__
from simplicial import (SimplicialComplex, Filtration, Embedding, EulerIntegrator, TriangularLattice,
                        TriangularLatticeEmbedding, k_simplex, k_void, k_skeleton, ring)
from simplicial.file.json_simplicial import as_json, as_simplicial_complex

# ---------------------------------------------------------------- tokens
_SAFE = set('abcdefghijklmnopqrstuvwxyzABCDEFGHIJKLMNOPQRSTUVWXYZ0123456789_.>-')

def esc(s):
    return ''.join(c if c in _SAFE else ''.join('%%%02X' % b for b in c.encode('utf-8')) for c in s)

def unesc(s):
    out = bytearray(); i = 0; b = s.encode('ascii')
    while i < len(b):
        if b[i] == 0x25 and i + 2 < len(b) + 0:
            out.append(int(b[i + 1:i + 3], 16)); i += 3
        else:
            out.append(b[i]); i += 1
    return out.decode('utf-8')

# ---- exotic mode: the implementation runs with names (and filtration indices) of unusual but legal
# Python types, in bijection with the plain names of the script; tokens are translated at this
# boundary both ways, so the script, its outputs and the model's run stay those of the plain names.
class Obj:
    """a user-defined hashable value (equality and hash by label, so that copy.deepcopy of a complex
    yields equal names)"""
    __slots__ = ('label',)
    def __init__(self, label): self.label = label
    def __repr__(self): return 'Obj(%r)' % (self.label,)
    def __eq__(self, o): return type(o) is Obj and type(o.label) is type(self.label) and o.label == self.label
    def __ne__(self, o): return not self.__eq__(o)
    def __hash__(self): return hash(('Obj', self.label))

_EXO = {'mode': None, 'fwd': {}, 'inv': {}, 'imode': None, 'vmode': None}

_JSON_DEFAULT = json.JSONEncoder.default
def _np_json_default(self, o):
    import numpy as _np
    if isinstance(o, _np.integer):
        return int(o)
    return _JSON_DEFAULT(self, o)

def exotic_reset(mode=None, imode=None, vmode=None):
    _EXO['mode'] = mode; _EXO['imode'] = imode; _EXO['fwd'] = {}; _EXO['inv'] = {}; _EXO['vmode'] = vmode
    # (the harness's own records of attribute values are JSON texts: while numpy scalars stand in for integers,
    # they are written as the integers they are; scripts of this mode never call the library's JSON layer)
    json.JSONEncoder.default = _np_json_default if vmode == 'np' else _JSON_DEFAULT

def _exo_atom(x):
    """plain atom (int / str / float) -> the exotic value standing for it in this script"""
    m = _EXO['mode']
    if m is None:
        return x
    key = (type(x).__name__, x)
    if key in _EXO['fwd']:
        return _EXO['fwd'][key]
    if m == 'frozenset':
        y = frozenset([x]) if not (type(x) is str and x == '') else frozenset()
    elif m == 'obj':
        y = Obj(x)
    elif m == 'bytes':
        import fractions
        if type(x) is str: y = x.encode('utf-8')
        elif type(x) is int: y = complex(x, 1)
        else: y = fractions.Fraction(x) + fractions.Fraction(1, 3)
    else:
        raise ValueError('exotic mode ' + m)
    _EXO['fwd'][key] = y; _EXO['inv'][y] = x
    return y

def _exo_back(n):
    if _EXO['mode'] is None:
        return n, False
    try:
        if n in _EXO['inv'] and type(n) not in (int, str, float, tuple):
            return _EXO['inv'][n], True
    except TypeError:
        pass
    return n, False

def tok(n):
    """Python value -> name token, keeping its exact type visible."""
    n, _ = _exo_back(n)
    t = type(n)
    if t is int:
        return 'i%d' % n
    if t is str:
        return 's' + esc(n)
    if t is float:
        if n != n or n in (float('inf'), float('-inf')):
            return '?float:' + repr(n)
        num, den = n.as_integer_ratio()
        e = -(den.bit_length() - 1)
        while num != 0 and num % 2 == 0:
            num //= 2; e += 1
        return 'f%de%d' % (num, e)
    if t is tuple:
        return '(' + ','.join(tok(x) for x in n) + ')'
    return '?%s:%s' % (t.__module__ + '.' + t.__name__, esc(repr(n)))

import re as _re_
_AUTO_NAME = _re_.compile(r'^\d+d\d+$')

def parse_name(s):
    x, j = _parse_name_at(s, 0)
    if j != len(s):
        raise ValueError('trailing junk in name ' + s)
    return x

def _parse_name_at(s, i):
    def until(j):
        k = j
        while k < len(s) and s[k] not in ',)':
            k += 1
        return k
    c = s[i]
    if c == 'i':
        k = until(i + 1); return _exo_atom(int(s[i + 1:k])), k
    if c == 's':
        k = until(i + 1); v = unesc(s[i + 1:k])
        return (v if _AUTO_NAME.match(v) else _exo_atom(v)), k      # library-generated names stay what they are
    if c == 'f':
        k = until(i + 1); body = s[i + 1:k]; e = body.index('e')
        return _exo_atom(math.ldexp(float(int(body[:e])), int(body[e + 1:]))), k
    if c == '(':
        if s[i + 1] == ')':
            return (), i + 2
        items = []; j = i + 1
        while True:
            x, j = _parse_name_at(s, j); items.append(x)
            if s[j] == ',':
                j += 1
            elif s[j] == ')':
                return tuple(items), j + 1
            else:
                raise ValueError('bad tuple ' + s)
    raise ValueError('bad name ' + s)

def idx_tok(x):
    im = _EXO['imode']
    if im == 'tuple' and type(x) is tuple and len(x) == 2:
        x = x[0]
    elif im == 'fraction':
        import fractions
        if isinstance(x, fractions.Fraction):
            x = float(x) if x.denominator != 1 else int(x)
    y = x * 4
    if isinstance(y, (int, float)) and y == int(y):
        return 'q%d' % int(y)
    return 'q?' + esc(repr(x))

def parse_idx(t):
    n = int(t[1:])
    v = n // 4 if n % 4 == 0 else n / 4
    im = _EXO['imode']
    if im == 'tuple':
        return (v, 0)
    if im == 'fraction':
        import fractions
        return fractions.Fraction(n, 4)
    return v

def aval_tok(v):
    if type(v) is int:
        return 'i%d' % v
    if _EXO['vmode'] == 'np':
        import numpy as _np
        if isinstance(v, _np.integer):
            return 'i%d' % int(v)
    return 's' + esc(json.dumps(v, sort_keys=True, ensure_ascii=True, separators=(',', ':')))

def parse_aval(t):
    if t[0] == 'i' and _EXO['vmode'] == 'np':
        import numpy as _np
        v = int(t[1:])
        return _np.uint8(v) if 0 <= v <= 255 else _np.int64(v)
    return int(t[1:]) if t[0] == 'i' else json.loads(unesc(t[1:]))

def dict_s(d):
    return '{ ' + ' '.join(sorted('s' + esc(k) + '=' + aval_tok(v) for k, v in d.items())) + ' }' if len(d) else '{  }'

def set_s(l):
    return '{ ' + ' '.join(sorted(set(tok(x) for x in l))) + ' }'

def list_s(l):
    return '[ ' + ' '.join(tok(x) for x in l) + ' ]'

def mat_s(B):
    nr, nc = B.shape
    def ent(x):
        return '1' if x == 1 else ('0' if x == 0 else '<%r>' % (x,))
    return 'M %dx%d %s' % (nr, nc, '/'.join(''.join(ent(B[i, j]) for j in range(nc)) for i in range(nr)))

def pairs_s(m):
    return '{ ' + ' '.join(sorted(set(tok(a) + '=>' + tok(b) for a, b in m.items()))) + ' }'

def coords_s(p):
    return '[ ' + ' '.join(float(x).hex() for x in p) + ' ]'

def exn_name(e):
    t = type(e)
    if t is Exception:
        return 'Exception'
    return t.__name__


class CountingEmbedding(Embedding):
    """An Embedding that logs computePositionOf calls (the default computes the origin)."""
    def __init__(self, c, dim, metric=None):
        super().__init__(c, dim)
        self.calls = []
        self._metric = metric
    def computePositionOf(self, s):
        self.calls.append(s)
        return super().computePositionOf(s)
    def distance(self, p, q):
        if self._metric == 'manhattan':
            return sum(abs(q[d] - p[d]) for d in range(self.dimension()))
        if self._metric == 'chebyshev':
            return max([abs(q[d] - p[d]) for d in range(self.dimension())], default=0.0)
        if self._metric == 'half':         # half the Euclidean distance: smaller than any single coordinate gap suggests
            return 0.5 * super().distance(p, q)
        if self._metric == 'wrap':         # a flat torus of period 4 in every coordinate
            s_ = 0.0
            for d in range(self.dimension()):
                g = abs(q[d] - p[d]) % 4.0
                g = min(g, 4.0 - g)
                s_ = s_ + g * g
            return math.sqrt(s_)
        return super().distance(p, q)


class Toks:
    def __init__(self, toks): self.t = toks; self.i = 0
    def next(self):
        x = self.t[self.i]; self.i += 1; return x
    def peek(self): return self.t[self.i]
    def done(self): return self.i >= len(self.t)
    def name(self): return parse_name(self.next())
    def nat(self): return int(self.next())
    def int(self): return int(self.next())
    def bool(self): return self.next() == '1'
    def idx(self): return parse_idx(self.next())
    def lst(self, item):
        assert self.next() == '['
        out = []
        while self.peek() != ']':
            out.append(item())
        self.next(); return out
    def names(self): return self.lst(self.name)
    def optname(self):
        if self.peek() == '-': self.next(); return None
        return self.name()
    def optnats(self):
        if self.peek() == '-': self.next(); return None
        return self.lst(self.nat)
    def optnames(self):
        if self.peek() == '-': self.next(); return None
        return self.names()
    def str(self): return unesc(self.next()[1:])


class ImplWorld:
    def __init__(self):
        self.reset()

    def reset(self):
        exotic_reset()
        self.ostate = {}     # scratch state of the oracles
        self.last_line = ''; self.last_out = ''
        self.vars = {}
        self.dicts = []
        self.embcx = {}     # embedding var -> complex var
        self.integrators = {}
        self.iters = {}     # iterator var -> [python iterator, filtration var, steps taken]

    def integrator(self, key, default):
        """one EulerIntegrator per (attribute, default) for the whole script: an integrator that
        remembered anything from an earlier call would show"""
        k = (key, default)
        if k not in self.integrators:
            self.integrators[k] = EulerIntegrator(key, default)
        return self.integrators[k]

    # -- arguments
    def attr(self, T):
        t = T.peek()
        if t == '-':
            T.next(); return None
        if t[0] == '#':
            T.next(); return self.dicts[int(t[1:])]
        assert T.next() == '{'
        d = {}
        while T.peek() != '}':
            k = T.str(); d[k] = parse_aval(T.next())
        T.next()
        self.dicts.append(d)
        return d

    def ren(self, T):
        kw = T.next(); calls = []
        if kw == '-':
            return None, calls
        if kw == 'map':
            l = T.names(); return {l[i]: l[i + 1] for i in range(0, len(l), 2)}, calls
        if kw == 'tup':
            z = T.int()
            def f(s): calls.append(s); return (s, _exo_atom(z))
        elif kw == 'count':
            b = T.int()
            def f(s): calls.append(s); return _exo_atom(b + len(calls) - 1)
        elif kw == 'prefix':
            p = T.str()
            def f(s): calls.append(s); return p + str(s)
        elif kw == 'const':
            n = T.name()
            def f(s): calls.append(s); return n
        else:
            raise ValueError('ren ' + kw)
        return f, calls

    # -- one command; returns (annotated line, [output lines])
    def exec(self, line):
        toks = line.split()
        if not toks:
            return line, []
        kw = toks[0]
        if kw == 'reset':
            self.reset(); return line, ['ok reset']
        if kw == 'echo':
            return line, [line]
        if kw == 'exotic':
            # exotic <name mode|-> <index mode|->: from here on the implementation sees exotic names / indices
            # (a third argument `np`: integer attribute values and integral coordinates are handed over as numpy
            # fixed-width scalars -- numpy.uint8 / int64, numpy.int32 -- the way data read from arrays arrives)
            exotic_reset(None if toks[1] == '-' else toks[1], None if len(toks) < 3 or toks[2] == '-' else toks[2],
                         None if len(toks) < 4 or toks[3] == '-' else toks[3])
            return 'echo ' + line, ['echo ' + line]
        if kw == 'snap':
            return line, self.snapshot(toks[1])
        if kw == 'ids':
            return line, [self.ids()]
        if kw == '!':
            # implementation-only step: the model does not run it (it gets the state by `sync`)
            a, o = self.exec(' '.join(toks[1:]))
            return 'echo ! ' + ' '.join(toks[1:]), o
        if kw == 'both':
            # both <a> <b> <kw> <args>: the request goes to <a>; <b> receives it only if <a> accepted it
            a_, b_ = toks[1], toks[2]
            la = ' '.join([toks[3], a_] + toks[4:]); lb = ' '.join([toks[3], b_] + toks[4:])
            ann_a, out_a = self.exec(la)
            keep_line, keep_out = self.last_line, self.last_out
            if out_a and out_a[0].startswith('err'):
                return ann_a, out_a
            ann_b, out_b = self.exec(lb)
            self.last_line, self.last_out = keep_line, keep_out
            return ann_a + '\n' + ann_b, out_a + out_b
        if kw == 'sync':
            return self.sync(toks[1]), ['ok sync']
        if kw == 'check':
            from harness import oracles
            try:
                msg = oracles.run(self, toks[1], toks[2:])
            except Exception as e:
                import traceback
                msg = 'oracle raised %s: %s | %s' % (type(e).__name__, e, esc(traceback.format_exc()[-600:]))
            return 'echo ' + line, (['ok check'] if msg is None else ['ORACLE-FAIL %s %s' % (toks[1], msg)])
        T = Toks(toks[1:])
        self.annot = None
        try:
            v = self.cmd(kw, T)
            out = 'ok' if v is None or v == '' else 'ok ' + v
        except (KeyError, ValueError, TypeError, IndexError) as e:
            out = 'err ' + exn_name(e)
        except Exception as e:
            out = 'err ' + exn_name(e)
        self.last_line = line; self.last_out = out
        return (self.annot if self.annot is not None else line), [out]

    def cx(self, v):
        return self.vars[v]

    def cmd(self, kw, T):
        V = self.vars
        if kw == 'new':
            V[T.next()] = SimplicialComplex(); return None
        if kw == 'newf':
            v = T.next(); V[v] = Filtration(T.idx()); return None
        if kw == 'copy':
            w = T.next(); v = T.next(); src = V[v]
            if isinstance(src, Filtration):
                orders = ' '.join(idx_tok(i) + ' ' + list_s(src.simplicesAddedAtIndex(i)) for i in src.indices())
                self.annot = 'copy %s %s [ %s ]' % (w, v, orders)
            else:
                self.annot = 'copy %s %s [ ]' % (w, v)
            V[w] = src.copy(); return None
        if kw == 'copyinto':
            # (the documented result of copy(c) / snap(c) / compose(b, c) is the target c itself)
            v = T.next(); w = T.next(); r_ = V[v].copy(V[w]); return None if r_ is V[w] else 'result-is-not-the-target'
        if kw == 'snapinto':
            f = T.next(); w = T.next(); r_ = V[f].snap(V[w]); return None if r_ is V[w] else 'result-is-not-the-target'
        if kw == 'deepcopy':
            w = T.next(); v = T.next(); V[w] = _copy.deepcopy(V[v])
            # what the oracles remember about v (shadow logs keyed by variable) holds of its deep copy too
            for k_ in list(self.ostate):
                if isinstance(k_, str) and k_.endswith(':' + v):
                    self.ostate[k_[:-len(v)] + w] = _copy.deepcopy(self.ostate[k_])
            return None
        if kw == 'compose':
            w = T.next(); a = T.next(); b = T.next(); V[w] = V[a].compose(V[b]); return None
        if kw == 'composeinto':
            a = T.next(); b = T.next(); d = T.next(); r_ = V[a].compose(V[b], V[d]); return None if r_ is V[d] else 'result-is-not-the-target'
        if kw == 'flag':
            w = T.next(); v = T.next(); V[w] = V[v].flagComplex(); return None
        if kw == 'json':
            w = T.next(); v = T.next()
            V[w] = json.loads(as_json(V[v]), object_hook=as_simplicial_complex); return None
        if kw == 'snapf':
            w = T.next(); f = T.next(); V[w] = V[f].snap(); return None
        if kw == 'complexes':
            f = T.next(); pre = T.next()
            for n, c in enumerate(V[f].complexes()):
                V[pre + str(n)] = c
            return None
        if kw == 'iter':
            # (implementation-side only, scripted as `! iter it f`) start iterating over f.complexes()
            it = T.next(); f = T.next()
            self.iters[it] = [iter(V[f].complexes()), f, 0]; return None
        if kw == 'nextc':
            # script form: nextc w it ; annotated for the model: nextof w f <position>
            w = T.next(); it = T.next(); st = self.iters[it]
            self.annot = 'nextof %s %s %d' % (w, st[1], st[2])
            st[2] += 1
            V[w] = next(st[0]); return None
        if kw == 'zipiter':
            # (implementation-side only) iterate two filtrations in step, to the end of both
            f = T.next(); g = T.next(); itf = iter(V[f].complexes()); itg = iter(V[g].complexes())
            for _ in range(len(list(V[f].indices())) + len(list(V[g].indices())) + 1):
                for it in (itf, itg):
                    try:
                        next(it)
                    except StopIteration:
                        pass
            return None
        if kw == 'complexes-partial':
            # (implementation-side only) take n snapshots from the iterator and abandon it
            f = T.next(); n = T.nat(); it = iter(V[f].complexes())
            for _ in range(n):
                next(it)
            return None
        if kw == 'vr':
            # script form: vr w e <eps hex> ; annotated for the model: vr w v [ i j ... ]
            w = T.next(); e = T.next(); eps = float.fromhex(T.next())
            em = V[e]; c = em.complex(); ss = list(c.simplicesOfOrder(0))
            # the call first, on the state the script built -- the close pairs handed to the model are worked out
            # afterwards (reading a position caches it: done before the call it would change what the call sees)
            exc = None
            try:
                res = em.vietorisRipsComplex(eps)
            except Exception as ex_:
                exc = ex_
            pairs = []
            for i in range(len(ss) - 1):
                for j in range(i + 1, len(ss)):
                    if em.distance(em.positionOf(ss[i]), em.positionOf(ss[j])) <= eps:
                        pairs += [i, j]
            self.annot = 'vr %s %s [ %s ]' % (w, self.embcx[e], ' '.join(map(str, pairs)))
            if exc is not None:
                raise exc
            V[w] = res; return None
        if kw == 'gen':
            g = T.next(); v = T.next(); n = T.nat(); id = T.optname(); a = self.attr(T)
            c = V.get(v)
            # arguments the script leaves out are left out of the call (the defaults are part of the API)
            kw_ = {} if c is None else {'c': c}
            if g == 'simplex':
                if id is not None: kw_['id'] = id
                if a is not None: kw_['attr'] = a
                r = k_simplex(n, **kw_)
            elif g == 'void': r = k_void(n, **kw_)
            elif g == 'skeleton': r = k_skeleton(n, **kw_)
            elif g == 'ring': r = ring(n, **kw_)
            else: raise ValueError(g)
            if c is None:
                V[v] = r; return None
            # a target was given: it stays bound to v, and the generator returns that very complex
            return None if r is c else 'result-is-not-the-target'

        if kw == 'lattice':
            w = T.next(); r = T.nat(); c = T.nat(); V[w] = TriangularLattice(r, c); return None
        if kw == 'add':
            v = T.next(); fs = T.names(); id = T.optname(); a = self.attr(T)
            return tok(V[v].addSimplex(fs=fs, id=id, attr=a))
        if kw == 'addb':
            v = T.next(); bs = T.names(); id = T.optname(); a = self.attr(T)
            return tok(V[v].addSimplexWithBasis(bs, id=id, attr=a))
        if kw == 'ensure':
            v = T.next(); bs = T.names(); a = self.attr(T); V[v].ensureBasis(bs, a); return None
        if kw == 'addfrom':
            v = T.next(); w = T.next(); rn, _ = self.ren(T)
            return list_s(V[v].addSimplicesFrom(V[w], rn))
        if kw == 'del':
            v = T.next(); V[v].deleteSimplex(T.name()); return None
        if kw == 'delb':
            v = T.next(); V[v].deleteSimplexWithBasis(T.names()); return None
        if kw == 'dels':
            v = T.next(); V[v].deleteSimplices(T.names()); return None
        if kw == 'restrict':
            v = T.next(); V[v].restrictBasisTo(T.names()); return None
        if kw == 'subdiv':
            v = T.next(); s = T.name(); c = V[v]
            order = []
            if s in c:
                order = list(c.basisOf(s))
            self.annot = 'subdiv %s %s %s' % (v, tok(s), list_s(order))
            return tok(c.barycentricSubdivide(s))
        if kw == 'relabel':
            v = T.next(); rn, calls = self.ren(T)
            m = V[v].relabel(rn)
            return pairs_s(m) + ' calls ' + list_s(calls)
        if kw == 'relabel1':
            v = T.next(); s = T.name(); q = T.name(); V[v].relabelSimplex(s, q); return None
        if kw == 'relabeldisj':
            v = T.next(); w = T.next(); return pairs_s(V[v].relabelDisjointFrom(V[w]))
        if kw == 'setattr':
            v = T.next(); s = T.name(); k = T.str(); x = parse_aval(T.next()); V[v][s][k] = x; return None
        if kw == 'setattrs':
            v = T.next(); s = T.name(); a = self.attr(T)
            if a is None or not isinstance(V[v], SimplicialComplex) or isinstance(V[v], Filtration):
                raise TypeError('setattrs')
            V[v][s] = a; return None
        if kw == 'grow':
            v = T.next(); V[v].growFlagComplex(T.names()); return None
        if kw == 'setindex':
            f = T.next(); V[f].setIndex(T.idx()); return None
        if kw == 'next':
            return idx_tok(V[T.next()].setNextIndex())
        if kw == 'prev':
            return idx_tok(V[T.next()].setPreviousIndex())
        if kw == 'min':
            V[T.next()].setMinimumIndex(); return None
        if kw == 'max':
            V[T.next()].setMaximumIndex(); return None
        if kw in ('emb', 'embm', 'embp'):
            e = T.next(); v = T.next(); dim = T.nat()
            metric = T.next() if kw == 'embm' else None
            if kw == 'embp':
                # the library's own class, not a subclass: nothing overridden on the class (code paths that ask
                # "is this the default metric / the default hook?" see the defaults); the hook is logged per instance
                em_ = Embedding(V[v], dim); em_.calls = []; em_._metric = None
                def _logged(s_, _orig=em_.computePositionOf, _log=em_.calls):
                    _log.append(s_); return _orig(s_)
                em_.computePositionOf = _logged
                V[e] = em_
            else:
                V[e] = CountingEmbedding(V[v], dim, metric)
            self.embcx[e] = v
            self.annot = 'emb %s %s %d' % (e, v, dim); return None
        if kw == 'pos':
            e = T.next(); s = T.name(); p = T.lst(lambda: float.fromhex(T.next()))
            if _EXO['vmode'] == 'np' and all(x == int(x) and abs(x) <= 1.0e9 for x in p):
                import numpy as _np
                p = [_np.int32(int(x)) for x in p]
            V[e].positionSimplex(s, p); return None
        if kw == 'getpos':
            e = T.next(); s = T.name(); return coords_s(V[e].positionOf(s))
        if kw == 'positions':
            e = T.next(); ss = T.optnames()
            pm = V[e].positionsOf(ss)
            return '{ ' + ' '.join(sorted(tok(n) + ':' + coords_s(p) for n, p in pm.items())) + ' }'
        if kw == 'clear':
            V[T.next()].clearPositions(); return None
        if kw == 'len':
            return str(len(V[T.next()]))
        if kw == 'in':
            e = T.next(); s = T.name(); return 'T' if s in V[e] else 'F'
        if kw == 'calls':
            return list_s(V[T.next()].calls)
        if kw == 'q':
            v = T.next(); return self.query(V[v], T)
        raise ValueError('command ' + kw)

    def groups(self, c, l):
        out = []; cur = None
        for x in l:
            k = c.orderOf(x)
            if cur is None or k != cur:
                out.append([]); cur = k
            out[-1].append(x)
        return '[ ' + ' '.join(set_s(g) for g in out) + ' ]' if out else '[  ]'

    @staticmethod
    def spoil(x):
        """After a returned list / set has been rendered, edit it the way a careless caller might
        (the API hands out fresh collections: an internal one handed out by mistake would now be
        corrupted, and every later step would show it)."""
        try:
            if isinstance(x, list):
                x.append('@spoiled'); x.reverse()
            elif isinstance(x, set):
                x.add('@spoiled')
        except Exception:
            pass
        return x

    def query(self, c, T):
        q = T.next()
        b = lambda x: 'T' if x else 'F'
        _ls = lambda x: (lambda r: (self.spoil(x), r)[1])(list_s(x))
        _ss = lambda x: (lambda r: (self.spoil(x), r)[1])(set_s(x))
        if q == 'order': return str(c.orderOf(T.name()))
        if q == 'index': return str(c.indexOf(T.name()))
        if q == 'faces': return _ss(c.faces(T.name()))
        if q == 'cofaces': return _ss(c.cofaces(T.name()))
        if q == 'basis': return _ss(c.basisOf(T.name()))
        if q == 'contains': return b(T.name() in c)
        if q == 'maxorder': return str(c.maxOrder())
        if q == 'counts':
            xs = c.numberOfSimplicesOfOrder(); r = '[ ' + ' '.join(map(str, xs)) + ' ]'; self.spoil(xs); return r
        if q == 'total': return str(c.numberOfSimplices())
        if q == 'simplices': return _ls(c.simplices(reverse=T.bool()))
        if q == 'oforder': return _ls(c.simplicesOfOrder(T.nat()))
        if q == 'closure':
            s = T.name(); r = T.bool(); e = T.bool(); xs = c.closureOf(s, reverse=r, exclude_self=e); g = self.groups(c, xs); self.spoil(xs); return g
        if q == 'partof':
            s = T.name(); r = T.bool(); e = T.bool(); xs = c.partOf(s, reverse=r, exclude_self=e); g = self.groups(c, xs); self.spoil(xs); return g
        if q == 'withbasis':
            r = c.simplexWithBasis(T.names()); return 'None' if r is None else tok(r)
        if q == 'withfaces':
            r = c.simplexWithFaces(T.names()); return 'None' if r is None else tok(r)
        if q == 'containsbasis': return b(c.containsSimplexWithBasis(T.names()))
        if q == 'isbasis': return b(c.isBasis(T.names()))
        if q == 'disjoint': return b(c.disjoint(T.names()))
        if q == 'boundary': return set_s(c.boundary(T.names()))
        if q == 'bop': return mat_s(c.boundaryOperator(T.nat()))
        if q == 'snf': return mat_s(c.smithNormalForm(T.nat()))
        if q == 'Z':
            z = c.Z(T.optnats())
            return '{ ' + ' '.join('%d:[ %s ]' % (k, ' '.join('(' + ' '.join(tok(x) for x in ch) + ')' for ch in z[k]))
                                   for k in sorted(z.keys())) + ' }'
        if q == 'betti':
            bt = c.bettiNumbers(T.optnats())
            return '{ ' + ' '.join('%d:%d' % (k, bt[k]) for k in sorted(bt.keys())) + ' }'
        if q == 'euler': return str(c.eulerCharacteristic())
        if q == 'cmp':
            op = T.next(); w = self.vars[T.next()]
            return b({'le': lambda: c <= w, 'lt': lambda: c < w, 'ge': lambda: c >= w,
                      'gt': lambda: c > w, 'eq': lambda: c == w, 'ne': lambda: c != w}[op]())
        if q == 'attr': return dict_s(c[T.name()])
        if q == 'integrate':
            a = T.str(); d = T.int(); return str(self.integrator(a, d).integrate(c))
        if q == 'getindex': return idx_tok(c.getIndex())
        if q == 'indices':
            xs = c.indices(reverse=T.bool()); r = '[ ' + ' '.join(idx_tok(i) for i in xs) + ' ]'; self.spoil(xs); return r
        if q == 'isindex': return b(c.isIndex(T.idx()))
        if q == 'addedat': return idx_tok(c.addedAtIndex(T.name()))
        if q == 'addedatindex':
            i = T.idx(); r = T.bool(); xs = c.simplicesAddedAtIndex(i, reverse=r); g = self.groups(c, xs); self.spoil(xs); return g
        if q == 'containssome': return b(c.containsSimplexAtSomeIndex(T.name()))
        raise ValueError('query ' + q)

    def sync(self, v):
        """Lines that rebuild, in the model, the complex the implementation holds in variable v
        (points and simplices in listing order, by faces, with attribute contents)."""
        c = self.vars[v]
        lines = ['echo @sync', 'new ' + v]
        for s in SimplicialComplex.simplices(c):
            d = c[s]
            a = '-' if len(d) == 0 else '{ ' + ' '.join('s' + esc(k) + ' ' + aval_tok(x) for k, x in d.items()) + ' }'
            lines.append('add %s %s %s %s' % (v, list_s(sorted(c.faces(s), key=tok)), tok(s), a))
        return '\n'.join(lines)

    # -- observation
    def snapshot(self, v):
        c = self.vars.get(v)
        if c is None or not isinstance(c, SimplicialComplex):
            return ['err NoSuchVar']
        isf = isinstance(c, Filtration)
        out = []
        try:
            mx = c.maxOrder()
            out.append('SNAP kind=%d max=%d' % (1 if isf else 0, mx))
            for k in range(mx + 1):
                xs = c.simplicesOfOrder(k); out.append('L%d %s' % (k, list_s(xs))); self.spoil(xs)
            ss = c.simplices()
            out.append('ALL ' + list_s(ss))
            xs = c.simplices(reverse=True); out.append('REV ' + list_s(xs)); self.spoil(xs)
            self.spoil(c.simplices())
            for s in ss:
                out.append('S %s o=%d i=%d F%s C%s B%s A%s' % (tok(s), c.orderOf(s), c.indexOf(s), set_s(c.faces(s)),
                                                             set_s(c.cofaces(s)), set_s(c.basisOf(s)), dict_s(c[s])))
            for k in range(mx + 2):
                out.append('B%d %s' % (k, mat_s(c.boundaryOperator(k))))
            if isf:
                xs = c.indices(); out.append('I %s [ %s ]' % (idx_tok(c.getIndex()), ' '.join(idx_tok(i) for i in xs))); self.spoil(xs)
                for s in ss:
                    out.append('BIRTH %s %s' % (tok(s), idx_tok(c.addedAtIndex(s))))
        except Exception as e:
            out.append('SNAPSHOT-RAISED %s %s' % (exn_name(e), esc(str(e))))
        out.append('END')
        return out

    def ids(self):
        classes = {}
        for v, c in self.vars.items():
            if isinstance(c, SimplicialComplex):
                for s in SimplicialComplex.simplices(c):      # every index of a filtration
                    classes.setdefault(id(c.getAttributes(s)), []).append(v + '/' + tok(s))
        for k, d in enumerate(self.dicts):
            classes.setdefault(id(d), []).append('#%d' % k)
        return 'ok ids | ' + ' | '.join(sorted(' '.join(sorted(ms)) for ms in classes.values()))


def run_script(lines):
    """Run one script (list of lines) on a fresh world: returns (annotated lines, outputs per line)."""
    w = ImplWorld()
    ann = []; outs = []
    for l in lines:
        a, o = w.exec(l)
        ann.append(a); outs.append(o)
    return ann, outs


if __name__ == '__main__':
    w = ImplWorld()
    for line in sys.stdin:
        a, o = w.exec(line.rstrip('\n'))
        for x in o:
            print(x)
