"""oracles4.py -- oracles for C13 and C14 (filtrations).  C13 keeps an independent shadow log
`vertex set -> birth index` maintained from the accepted calls; C14 compares every query on the
filtration at index i with the same query on the snapshot taken at i."""
import itertools, random, json, copy as _copy
from harness import impl
from harness.impl import tok, parse_name, idx_tok, SimplicialComplex, Filtration
from harness.oracles import oracle, wf_message, has
from harness.oracles2 import own_betti

def _shadow(w, f):
    return w.ostate.setdefault('c13:' + f, {'sets': {}, 'index': None})

@oracle('c13-begin')
def o_c13_begin(w, args):
    """newf just created <f> at index <q>"""
    sh = _shadow(w, args[0]); sh['sets'] = {}; sh['index'] = impl.parse_idx(args[1])
    return None

@oracle('c13-begin-index')
def o_c13_begin_index(w, args):
    """the script moved the index behind the shadow's back (an implementation-only step): read it"""
    sh = _shadow(w, args[0]); sh['index'] = w.vars[args[0]].getIndex()
    return None

@oracle('c13-pre')
def o_c13_pre(w, args):
    f = args[0]; c = w.vars[f]; sh = _shadow(w, f); line = ' '.join(args[1:]); toks = line.split(); kw = toks[0]
    st = {'line': line}
    if kw == 'del':
        s = parse_name(toks[2])
        if c.containsSimplexAtSomeIndex(s):
            st['V'] = frozenset(map(tok, c.basisOf(s)))
    if kw == 'dels':
        T = impl.Toks(toks[2:]); ss = T.names()
        st['Vs'] = [frozenset(map(tok, c.basisOf(s))) for s in ss if has(c, s)]       # (what is not visible now is skipped by the call)
    if kw == 'add':
        T = impl.Toks(toks[2:]); fs = T.names()
        st['faces_V'] = [frozenset(map(tok, c.basisOf(x))) if c.containsSimplexAtSomeIndex(x) else None for x in fs]
        st['faces_visible'] = all(has(c, x) for x in fs)
    w.ostate['c13pre'] = st
    return None

@oracle('c13-post')
def o_c13_post(w, args):
    f = args[0]; c = w.vars[f]; sh = _shadow(w, f); st = w.ostate['c13pre']; line = st['line']; toks = line.split(); kw = toks[0]
    out = w.last_out; ok = not out.startswith('err')
    S = sh['sets']
    if kw == 'setindex':
        sh['index'] = impl.parse_idx(toks[2])
    elif kw in ('next', 'prev', 'min', 'max'):
        sh['index'] = c.getIndex()         # navigation itself is C14's subject
    elif kw == 'add' and ok:
        T = impl.Toks(toks[2:]); fs = T.names(); id = T.optname()
        name = out.split()[1]
        if len(fs) == 0:
            V = frozenset([name])
        else:
            V = frozenset().union(*[x for x in st['faces_V'] if x is not None])
        if V not in S:
            S[V] = sh['index']
    elif kw == 'addb' and ok:
        T = impl.Toks(toks[2:]); bs = T.names()
        V = frozenset(map(tok, bs))
        for k in range(1, len(V) + 1):
            for x in itertools.combinations(sorted(V), k):
                if frozenset(x) not in S:
                    S[frozenset(x)] = sh['index']
    elif kw == 'del' and ok and 'V' in st:
        for U in [U for U in S if st['V'] <= U]:
            del S[U]
    elif kw == 'dels' and ok:
        # bulk deletion: the stars of all the simplices named, across all indices
        for V in st.get('Vs', []):
            for U in [U for U in S if V <= U]:
                del S[U]
    elif kw == 'restrict' and ok:
        T = impl.Toks(toks[2:]); keep = frozenset(map(tok, T.names()))
        for U in [U for U in S if not U <= keep]:
            del S[U]
    return c13_message(c, sh, kw)

def c13_message(f, sh, kw='?'):
    S = sh['sets']
    cur = f.getIndex()
    if sh['index'] is not None and cur != sh['index']:
        return '[getIndex/wrong] the current index is %r, the history set it to %r' % (cur, sh['index'])
    inds = list(f.indices())
    if inds != sorted(inds) or len(set(inds)) != len(inds):
        return '[indices/not-ascending] indices() = %s' % inds
    births = set(S.values())
    if not births <= set(inds):
        return '[indices/missing-birth-index] indices() = %s does not cover the birth indices %s' % (inds, sorted(births))
    g = _copy.deepcopy(f)
    prev = None
    for i in sorted(set(inds) | {cur}):
        g.setIndex(i)
        want = {V for V, b in S.items() if b <= i}
        ss = g.simplices()
        got = {}
        for s in ss:
            got[frozenset(map(tok, g.basisOf(s)))] = s
        if set(got) != want or len(ss) != len(got):
            return '[view/wrong-simplices] at index %r the filtration shows %s ; the surviving simplices born at or before it are %s' % (
                i, sorted(map(sorted, set(got) - want))[:4] or '(missing) ' + str(sorted(map(sorted, want - set(got)))[:4]), len(want))
        for s in ss:
            if s not in g:
                return '[view/membership] %s is listed at index %r but `in` is false' % (tok(s), i)
            b = S[frozenset(map(tok, g.basisOf(s)))]
            if g.addedAtIndex(s) != b:
                return '[addedAtIndex/wrong] %s was added at %r, addedAtIndex says %r' % (tok(s), b, g.addedAtIndex(s))
        # closed: every face of a visible simplex is visible
        vis = set(map(tok, ss))
        for s in ss:
            for x in g.faces(s):
                if tok(x) not in vis:
                    return '[view/not-closed] at index %r %s is visible but its face %s is not' % (i, tok(s), tok(x))
        if prev is not None and not prev <= set(got):
            return '[view/not-monotone] the complex at an earlier index is not contained in the one at %r' % (i,)
        prev = set(got)
        if i in inds:
            added = {frozenset(map(tok, g.basisOf(s))) for s in g.simplicesAddedAtIndex(i)}
            if added != {V for V, b in S.items() if b == i}:
                return '[simplicesAddedAtIndex/wrong] at %r: %s' % (i, sorted(map(sorted, added))[:5])
    # complexes(): one detached snapshot per index, ascending, index restored
    g = _copy.deepcopy(f)
    before = g.getIndex()
    snaps = list(g.complexes())
    if g.getIndex() != before:
        return '[complexes/moves-index] iterating moved the current index from %r to %r' % (before, g.getIndex())
    inds2 = list(g.indices())
    base = [x for x in inds2 if x in inds] if len(snaps) != len(inds2) else inds2
    if len(snaps) != len(inds):
        return '[complexes/count] %d snapshots for the %d indices %s' % (len(snaps), len(inds), inds)
    for i, sn in zip(inds, snaps):
        want = {V for V, b in S.items() if b <= i}
        got = {frozenset(map(tok, sn.basisOf(s))) for s in sn.simplices()}
        if got != want:
            return '[complexes/wrong-snapshot] the snapshot for index %r has %d simplices, expected %d' % (i, len(got), len(want))
        m = wf_message(sn)
        if m:
            return '[complexes/ill-formed-snapshot] index %r: %s' % (i, m)
    return None

# ================================================================ C14
QUERIES = ['membership', 'simplices', 'simplicesOfOrder', 'numberOfSimplicesOfOrder', 'numberOfSimplices',
           'maxOrder', 'orderOf', 'faces', 'basisOf', 'eulerCharacteristic', 'bettiNumbers']

@oracle('c14')
def o_c14(w, args):
    f = w.vars[args[0]]
    only = args[1:] or QUERIES
    g = _copy.deepcopy(f)
    allnames = list(SimplicialComplex.simplices(g))
    fails = []
    for i in g.indices():
        g.setIndex(i)
        try:
            sn = g.snap()
        except Exception as e:
            return '[snap/raises] snap() at index %r raised %s' % (i, type(e).__name__)
        def cmp(q, fn_f, fn_s):
            try:
                a = fn_f()
            except Exception as e:
                a = 'raises ' + type(e).__name__
            b = fn_s()
            if a != b:
                fails.append((q, i, a, b))
        if 'membership' in only:
            cmp('membership', lambda: [s in g for s in allnames], lambda: [s in sn for s in allnames])
        if 'simplices' in only:
            cmp('simplices', lambda: list(map(tok, g.simplices())), lambda: list(map(tok, sn.simplices())))
        if 'numberOfSimplices' in only:
            cmp('numberOfSimplices', lambda: g.numberOfSimplices(), lambda: sn.numberOfSimplices())
        if 'numberOfSimplicesOfOrder' in only:
            cmp('numberOfSimplicesOfOrder', lambda: list(g.numberOfSimplicesOfOrder()), lambda: list(sn.numberOfSimplicesOfOrder()))
        if 'maxOrder' in only:
            cmp('maxOrder', lambda: g.maxOrder(), lambda: sn.maxOrder())
        if 'simplicesOfOrder' in only:
            cmp('simplicesOfOrder', lambda: [list(map(tok, g.simplicesOfOrder(k))) for k in range(sn.maxOrder() + 2)],
                lambda: [list(map(tok, sn.simplicesOfOrder(k))) for k in range(sn.maxOrder() + 2)])
        if 'eulerCharacteristic' in only:
            cmp('eulerCharacteristic', lambda: g.eulerCharacteristic(), lambda: sn.eulerCharacteristic())
        if 'bettiNumbers' in only:
            cmp('bettiNumbers', lambda: dict(g.bettiNumbers(list(range(sn.maxOrder() + 1)))),
                lambda: dict(sn.bettiNumbers(list(range(sn.maxOrder() + 1)))))
        for s in sn.simplices():
            if 'orderOf' in only:
                cmp('orderOf', lambda: g.orderOf(s), lambda: sn.orderOf(s))
            if 'faces' in only:
                cmp('faces', lambda: sorted(map(tok, g.faces(s))), lambda: sorted(map(tok, sn.faces(s))))
            if 'basisOf' in only:
                cmp('basisOf', lambda: sorted(map(tok, g.basisOf(s))), lambda: sorted(map(tok, sn.basisOf(s))))
    if fails:
        q, i, a, b = fails[0]
        # one message per run and query: the first query that differs decides the signature
        return '[Filtration.%s/differs-from-snapshot] at index %r: %r on the filtration, %r on the snapshot' % (q, i, a, b)
    return None

@oracle('c14-nav')
def o_c14_nav(w, args):
    """stepping on a clone of <f>, from every index"""
    f = w.vars[args[0]]
    inds = list(f.indices())
    for i in inds:
        if not f.isIndex(i):
            return '[indices/not-an-index] indices() = %s lists %r, but isIndex(%r) is false' % (inds, i, i)
    if inds != sorted(set(inds)):
        return '[indices/not-ascending] indices() = %s' % inds
    for pos, i in enumerate(inds):
        for what in ('next', 'prev', 'min', 'max'):
            g = _copy.deepcopy(f)
            g.setIndex(i)
            try:
                if what == 'next': g.setNextIndex(); want = inds[min(pos + 1, len(inds) - 1)]
                elif what == 'prev': g.setPreviousIndex(); want = inds[max(pos - 1, 0)]
                elif what == 'min': g.setMinimumIndex(); want = inds[0]
                else: g.setMaximumIndex(); want = inds[-1]
            except Exception as e:
                return '[navigation/%s-raises] from index %r of %s: %s' % (what, i, inds, type(e).__name__)
            if g.getIndex() != want:
                return '[navigation/%s-wrong] from index %r of %s it moved to %r, expected %r' % (what, i, inds, g.getIndex(), want)
            if list(g.indices()) != inds:
                return '[navigation/%s-changes-indices] indices() became %s' % (what, list(g.indices()))
    return None

@oracle('c13-lockstep')
def o_c13_lockstep(w, args):
    """complexes() yields one detached snapshot per index, in order, and leaves the current index where it
    was -- also when two iterations advance in step, or when one is left half-way while another runs"""
    f = w.vars[args[0]]
    i0 = f.getIndex(); inds = list(f.indices())
    def fam(c):
        return sorted(tok(s) for s in c.simplices())
    want = []
    for i in inds:
        g = _copy.deepcopy(f); g.setIndex(i); want.append(fam(g.snap()))
    try:
        pairs = list(zip(f.complexes(), f.complexes()))
    except Exception as e:
        return '[complexes/lockstep-raises] zip(f.complexes(), f.complexes()): %s: %s' % (type(e).__name__, e)
    if f.getIndex() != i0:
        return '[complexes/index-not-restored] after two iterations in step the current index is %r, it was %r' % (f.getIndex(), i0)
    if len(pairs) != len(inds):
        return '[complexes/lockstep-count] %d pairs for %d indices' % (len(pairs), len(inds))
    for k, (a, b) in enumerate(pairs):
        if fam(a) != want[k] or fam(b) != want[k]:
            return '[complexes/lockstep-content] at index %r the two iterations yield %s / %s, the snapshot has %s' % (inds[k], fam(a)[:8], fam(b)[:8], want[k][:8])
    try:
        it = iter(f.complexes()); first = next(it, None)
        whole = list(f.complexes())
        rest = []                       # (stepped with next(): iter() on the library's iterator starts it over)
        while first is not None:
            try:
                rest.append(next(it))
            except StopIteration:
                break
    except Exception as e:
        return '[complexes/nested-raises] %s: %s' % (type(e).__name__, e)
    if f.getIndex() != i0:
        return '[complexes/index-not-restored] after a complete iteration inside a suspended one the current index is %r, it was %r' % (f.getIndex(), i0)
    got = ([fam(first)] if first is not None else []) + [fam(c) for c in rest]
    if got != want or [fam(c) for c in whole] != want:
        return '[complexes/nested-content] a suspended iteration resumed after a complete one yields other snapshots than the indices have'
    return None

@oracle('lockstep2')
def o_lockstep2(w, args):
    """two different filtrations iterated in step: each iteration yields its own filtration's snapshots, and neither
    filtration's index set or current index is disturbed"""
    f = w.vars[args[0]]; g = w.vars[args[1]]
    def fam(c):
        return sorted(tok(s) for s in c.simplices())
    def want_of(x):
        out = []
        for i in list(x.indices()):
            y = _copy.deepcopy(x); y.setIndex(i); out.append(fam(y.snap()))
        return out
    fi, gi = list(f.indices()), list(g.indices()); f0, g0 = f.getIndex(), g.getIndex()
    wf_, wg_ = want_of(f), want_of(g)
    itf, itg = iter(f.complexes()), iter(g.complexes())
    gotf, gotg = [], []
    try:
        for k in range(max(len(fi), len(gi)) + 1):
            for it, got in ((itf, gotf), (itg, gotg)):
                try:
                    got.append(fam(next(it)))
                except StopIteration:
                    pass
    except Exception as e:
        return '[complexes/two-filtrations-raises] %s: %s' % (type(e).__name__, e)
    if list(f.indices()) != fi or list(g.indices()) != gi:
        return '[complexes/two-filtrations-indices] iterating two filtrations in step changed an index set: %s -> %s / %s -> %s' % (fi, list(f.indices()), gi, list(g.indices()))
    if f.getIndex() != f0 or g.getIndex() != g0:
        return '[complexes/two-filtrations-index] iterating two filtrations in step moved a current index'
    if gotf != wf_ or gotg != wg_:
        return '[complexes/two-filtrations-content] iterating two filtrations in step: a snapshot is not the one of its own filtration at its index'
    return None
