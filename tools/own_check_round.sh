#!/bin/bash
# own_check_round.sh <letters...> : for every seeded change Cnn-<letter>, apply it, run the quick check of its own property, undo it
cd /verif
out=/var/tmp/own_round.txt; : > $out
for L in "$@"; do
  for d in seeded/C??-$L; do
    id=$(basename $d); p=${id%-*}
    git -C /repo apply /verif/$d/patch.diff || { echo "$id PATCH-DOES-NOT-APPLY" >> $out; continue; }
    r=$(./check $p --tier quick 2>&1 | grep -E "^VIOLATION" | head -1)
    git -C /repo checkout -- .
    if [ -z "$r" ]; then echo "$id missed" >> $out; elif echo "$r" | grep -q no-failing-input-found; then echo "$id diff" >> $out; else echo "$id oracle" >> $out; fi
  done
done
git -C /verif checkout -- evidence 2>/dev/null
cat $out
