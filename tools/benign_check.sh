#!/bin/bash
# benign_check.sh <id> ... : for every behaviour-preserving change /verif/benign/<id>/patch.diff, apply it to /repo, run all
# 20 quick checks in parallel, undo it; a line per change in /var/tmp/benign.txt: the checks that reported a VIOLATION
cd /verif
./build.sh || exit 2
out=/var/tmp/benign.txt
for id in "$@"; do
  d=benign/$id
  git -C /repo apply /verif/$d/patch.diff || { echo "$id PATCH-DOES-NOT-APPLY" >> $out; continue; }
  for i in 01 02 03 04 05 06 07 08 09 10 11 12 13 14 15 16 17 18 19 20; do
    ( ./check C$i --tier quick > /var/tmp/benign.$id.C$i.log 2>&1
      r=$(grep -E "^VIOLATION" /var/tmp/benign.$id.C$i.log | head -1)
      if [ -n "$r" ]; then if echo "$r" | grep -q no-failing-input-found; then echo "C$i:diff"; else echo "C$i:oracle"; fi; fi ) > /var/tmp/benign.$i.tmp &
  done
  wait
  echo "$id $(cat /var/tmp/benign.??.tmp | tr '\n' ' ')" >> $out
  git -C /repo checkout -- .
done
rm -f /var/tmp/benign.??.tmp
git -C /verif checkout -- evidence 2>/dev/null
