#!/bin/bash
# round6_import.sh Cnn L : copy a sub-agent's deliverable from /tmp/seed6-out/Cnn/L into /verif/seeded/Cnn-L and confirm it
pid=$1; L=$2
src=/tmp/seed6-out/$pid/$L
dst=/verif/seeded/$pid-$L
[ -f $src/patch.diff ] && [ -f $src/demo.py ] || { echo "$pid-$L: missing deliverable"; exit 1; }
mkdir -p $dst
cp $src/patch.diff $src/demo.py $dst/
[ -f $src/notes.json ] && cp $src/notes.json $dst/notes.json
/verif/confirm.sh $dst/patch.diff $dst/demo.py $dst/confirm.json
