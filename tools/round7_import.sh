#!/bin/bash
# round7_import.sh Cnn L : copy a sub-agent's deliverable from /tmp/seed7-out/Cnn/L into /verif/seeded/Cnn-L and confirm it
pid=$1; L=$2
src=/tmp/seed7-out/$pid/$L
dst=/verif/seeded/$pid-$L
[ -f $src/patch.diff ] && [ -f $src/demo.py ] || { echo "$pid-$L: missing deliverable"; exit 1; }
mkdir -p $dst
cp $src/patch.diff $src/demo.py $dst/
[ -f $src/notes.json ] && cp $src/notes.json $dst/notes.json
/verif/confirm.sh $dst/patch.diff $dst/demo.py $dst/confirm.json
