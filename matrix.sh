#!/bin/bash
# matrix.sh [out]: (ONLY="C01-A C02-B" restricts the rows) for every seeded change, apply it to /repo, run all 20 quick checks in parallel, undo it.
cd /verif
./build.sh || exit 2
out=${1:-/var/tmp/matrix.txt}
: > $out
for d in seeded/*/; do
  id=$(basename $d)
  if [ -n "$ONLY" ] && ! echo " $ONLY " | grep -q " $id "; then continue; fi
  git -C /repo apply /verif/$d/patch.diff || { echo "$id PATCH-DOES-NOT-APPLY" >> $out; continue; }
  for i in 01 02 03 04 05 06 07 08 09 10 11 12 13 14 15 16 17 18 19 20; do
    ( r=$(./check C$i --tier quick 2>&1 | grep -E "^VIOLATION" | head -1); 
      if [ -n "$r" ]; then if echo "$r" | grep -q no-failing-input-found; then echo "C$i:diff"; else echo "C$i:oracle"; fi; fi ) > /var/tmp/matrix.$i.tmp &
  done
  wait
  echo "$id $(cat /var/tmp/matrix.??.tmp | tr '\n' ' ')" >> $out
  git -C /repo checkout -- .
done
rm -f /var/tmp/matrix.??.tmp
# restore evidence written during mutated runs
git -C /verif checkout -- evidence 2>/dev/null
