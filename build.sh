#!/bin/bash
# Build the Coq development (full .vo build), extract the model and compile the driver.
# Serialised by a lock so that concurrent checks do not race.
set -e
cd "$(dirname "$0")"
mkdir -p build
exec 9>build/.lock
flock 9
cd coq
if [ ! -f Makefile ] || [ _CoqProject -nt Makefile ]; then coq_makefile -f _CoqProject -o Makefile >/dev/null; fi
timeout 3000 make -j16 > ../build/coq_build.log 2>&1 || { tail -30 ../build/coq_build.log; echo "COQ BUILD FAILED"; exit 2; }
cd ../build
if [ ! -x driver ] || [ ../coq/model.ml -nt driver ] || [ ../ocaml/driver.ml -nt driver ]; then
  cp ../coq/model.ml ../coq/model.mli ../ocaml/driver.ml .
  ocamlfind ocamlopt -O2 -w -a model.mli model.ml driver.ml -o driver.new > ocaml_build.log 2>&1 || { cat ocaml_build.log; echo "OCAML BUILD FAILED"; exit 2; }
  mv driver.new driver
fi
