#!/bin/bash
# confirm.sh <patch.diff> <demo.py> <out.json> : confirm a seeded change in a scratch worktree of /repo
# (outside /repo and /verif): demo passes on the clean tree, fails with the patch, full suite passes with it.
patch=$(readlink -f "$1"); demo=$(readlink -f "$2"); out="$3"
wt=$(mktemp -d /var/tmp/wtc.XXXXXX)
git -C /repo worktree add --detach -f "$wt" HEAD >/dev/null 2>&1 || { echo "worktree failed"; exit 2; }
trap 'git -C /repo worktree remove --force "$wt" >/dev/null 2>&1; git -C /repo worktree prune' EXIT
cd "$wt"
export PYTHONPATH="$wt" PYTHONHASHSEED=0 PYTHONDONTWRITEBYTECODE=1
c_out=$(timeout 300 /venv/bin/python "$demo" 2>&1 | tail -3 | tr '\n' ' '); c_rc=${PIPESTATUS[0]}
timeout 300 /venv/bin/python "$demo" >/dev/null 2>&1; c_rc=$?
git apply "$patch" || { echo "patch does not apply"; exit 3; }
p_out=$(timeout 300 /venv/bin/python "$demo" 2>&1 | tail -3 | tr '\n' ' ')
timeout 300 /venv/bin/python "$demo" >/dev/null 2>&1; p_rc=$?
suite=$(timeout 1500 /venv/bin/python -m pytest -q -p no:cacheprovider test/ 2>&1 | tail -1)
python3 - "$out" "$c_rc" "$p_rc" "$suite" "$c_out" "$p_out" <<'PY'
import sys,json
out,c_rc,p_rc,suite,c_out,p_out=sys.argv[1:]
json.dump({"demo_clean_rc":int(c_rc),"demo_patched_rc":int(p_rc),"suite":suite.strip(),"clean_out":c_out[-300:],"patched_out":p_out[-400:]},open(out,'w'),indent=1)
PY
echo "$(basename $(dirname $patch))/$(basename $patch): clean_rc=$c_rc patched_rc=$p_rc suite=[$suite]"
