#!/bin/bash
# soak.sh <tier> <seed list...> : run every check for each seed; report anything that is not clean
tier=$1; shift
./build.sh || exit 2
for s in "$@"; do
  for i in 01 02 03 04 05 06 07 08 09 10 11 12 13 14 15 16 17 18 19 20; do
    out=$(./check C$i --tier $tier --seed $s 2>&1)
    rc=$?
    echo "seed=$s C$i rc=$rc $(echo "$out" | tail -1)"
    if [ $rc -ne 0 ]; then echo "$out" | grep -E "VIOLATION|Traceback|Error" | head -5; fi
  done
done
